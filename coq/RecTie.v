(* C07 tie on the executable model: the two loaders of try_recover_inner (status-table scan, diagonal probe of every matrix
   row) read back from flash exactly the bits that [Roundtrip.rec_done] / [Roundtrip.rec_used] define - the functions of
   which recover_roundtrip shows that they ARE the live bookkeeping at every fragment boundary. *)
From Coq Require Import List NArith ZArith Arith Bool Lia ZifyBool ZifyN ZifyNat.
Require Import Consts Nor Geom.
Require Store Roundtrip.
Require Import MRecon Mgr CrcTie MgrSim StartSim.
Import ListNotations.
Open Scope N_scope.

Lemma read1 (mm : mem) a : read mm a 1 = mm a.
Proof. unfold read. change (N.to_nat 1) with 1%nat. cbn [read_n]. rewrite N.mul_0_r, N.add_0_r. reflexivity. Qed.

(* ---------- diagonal probe ---------- *)
Lemma load_used_spec m par moff : forall ks acc d d' us, dfail d = None ->
  load_used m par moff ks acc d = (d', Some us) ->
  keeps d d' /\ dmem d' = dmem d /\
  forall k, us k = acc k || (existsb (Nat.eqb k) ks && negb (dmem d (base m par + HEADER_SIZE + (moff + mro (N.of_nat k) + N.of_nat k / 8)) =? 255)).
Proof.
  induction ks as [|k0 tl IH]; intros acc d d' us F H; cbn [load_used] in H.
  - inversion H; subst. split; [apply keeps_refl; exact F|]. split; [reflexivity|]. intros k. cbn. rewrite orb_false_r. reflexivity.
  - cbv zeta in H. destruct (m_size m - HEADER_SIZE <? moff + mro (N.of_nat k0) + N.of_nat k0 / 8 + 1); [discriminate|].
    destruct (d_read d (base m par + HEADER_SIZE + (moff + mro (N.of_nat k0) + N.of_nat k0 / 8)) 1) as [d1 [v|]] eqn:R; [|discriminate].
    destruct (d_read_keeps _ _ _ _ _ F R) as [K1 M1]. destruct (d_read_some _ _ _ _ _ F R) as (-> & _ & _).
    destruct (IH _ d1 d' us (k_fail _ _ K1) H) as (K2 & M2 & S).
    split; [eapply keeps_trans; eassumption|]. split; [congruence|]. intros k. rewrite S, M1, read1. cbn [existsb].
    destruct (Nat.eqb_spec k k0) as [->|Hne].
    + destruct (dmem d (base m par + HEADER_SIZE + (moff + mro (N.of_nat k0) + N.of_nat k0 / 8)) =? 255) eqn:E;
        unfold upd; rewrite ?Nat.eqb_refl; cbn [negb orb andb]; destruct (acc k0), (existsb (Nat.eqb k0) tl); reflexivity.
    + destruct (dmem d (base m par + HEADER_SIZE + (moff + mro (N.of_nat k0) + N.of_nat k0 / 8)) =? 255); [reflexivity|].
      unfold upd. destruct (Nat.eqb_spec k k0); [contradiction| reflexivity].
Qed.

(* ---------- status-table scan ---------- *)
Ltac bcases := repeat match goal with
  | |- context [(?a <=? ?b)%nat] => destruct (Nat.leb_spec a b)
  | |- context [(?a <? ?b)%nat] => destruct (Nat.ltb_spec a b)
  | |- context [N.leb ?a ?b] => destruct (N.leb_spec a b)
  | |- context [N.ltb ?a ?b] => destruct (N.ltb_spec a b)
  end; cbn [andb orb negb]; rewrite ?orb_false_r, ?orb_true_r, ?andb_false_r, ?andb_true_r; try reflexivity; try lia.

Lemma status_bytes_spec : forall bs_ k acc acc', status_bytes bs_ k acc = Some acc' ->
  forall j, acc' j = acc j || ((k <=? j)%nat && (j <? k + length bs_)%nat && (nth (j - k) bs_ 0 =? DATA_WRITTEN)).
Proof.
  induction bs_ as [|b tl IH]; intros k acc acc' H j; cbn [status_bytes] in H.
  - inversion H; subst. cbn [length]. bcases.
  - assert (NTH : forall x, (S k <= j)%nat -> nth (j - k) (b :: tl) x = nth (j - S k) tl x).
    { intros x L. replace (j - k)%nat with (S (j - S k)) by lia. reflexivity. }
    destruct (N.eqb_spec b DATA_WRITTEN) as [Eb|Eb].
    + rewrite (IH _ _ _ H j). unfold upd. cbn [length].
      destruct (Nat.eqb_spec j k) as [->|Hne].
      * replace (k - k)%nat with 0%nat by lia. cbn [nth]. rewrite Eb, N.eqb_refl. bcases.
      * destruct (Nat.le_gt_cases (S k) j) as [L|L]; [rewrite (NTH 0 L)|]; bcases.
    + destruct (b =? DATA_NOT_WRITTEN); [|discriminate].
      rewrite (IH _ _ _ H j). cbn [length].
      destruct (Nat.eqb_spec j k) as [->|Hne].
      * replace (k - k)%nat with 0%nat by lia. cbn [nth]. destruct (N.eqb_spec b DATA_WRITTEN); [contradiction|]. bcases.
      * destruct (Nat.le_gt_cases (S k) j) as [L|L]; [rewrite (NTH 0 L)|]; bcases.
Qed.

Lemma nth_map_seq {A} (f : nat -> A) len j d0 : (j < len)%nat -> nth j (map f (seq 0 len)) d0 = f j.
Proof.
  intros H. rewrite (nth_indep _ d0 (f 0%nat)) by (rewrite map_length, seq_length; exact H).
  rewrite (map_nth f). rewrite seq_nth by exact H. reflexivity.
Qed.

Lemma load_status_spec m i : forall fuel pos remain acc d d' dn, wf (dmem d) -> dfail d = None ->
  remain <= N.of_nat fuel * MAX_SEGMENT_SIZE ->
  load_status fuel m i pos remain acc d = (d', Some dn) ->
  keeps d d' /\ dmem d' = dmem d /\
  forall j, dn j = acc j || ((pos <=? N.of_nat j) && (N.of_nat j <? pos + remain) && (dmem d (base m i + WRITTEN_OFFSET + N.of_nat j) =? DATA_WRITTEN)).
Proof.
  induction fuel as [|f IH]; intros pos remain acc d d' dn W F Hf H; cbn [load_status] in H.
  - inversion H; subst. split; [apply keeps_refl; exact F|]. split; [reflexivity|]. intros j.
    assert (remain = 0) by lia. subst remain. bcases.
  - destruct (N.eqb_spec remain 0) as [->|NZ].
    { inversion H; subst. split; [apply keeps_refl; exact F|]. split; [reflexivity|]. intros j. bcases. }
    cbv zeta in H. set (stride := N.min remain MAX_SEGMENT_SIZE) in *.
    destruct (d_read d (base m i + WRITTEN_OFFSET + pos) stride) as [d1 [v|]] eqn:R; [|discriminate].
    destruct (d_read_keeps _ _ _ _ _ F R) as [K1 M1]. destruct (d_read_some _ _ _ _ _ F R) as (-> & _ & _).
    destruct (status_bytes _ _ acc) as [acc1|] eqn:SB; [|discriminate].
    assert (Hf' : remain - stride <= N.of_nat f * MAX_SEGMENT_SIZE) by (unfold stride, MAX_SEGMENT_SIZE in *; lia).
    destruct (IH (pos + stride) (remain - stride) acc1 d1 d' dn ltac:(rewrite M1; exact W) (k_fail _ _ K1) Hf' H) as (K2 & M2 & S).
    split; [eapply keeps_trans; eassumption|]. split; [congruence|]. intros j. rewrite S, M1.
    rewrite (status_bytes_spec _ _ _ _ SB j).
    pose proof (bytes_of_read (dmem d) (base m i + WRITTEN_OFFSET + pos) (N.to_nat stride) W) as BR. rewrite N2Nat.id in BR. rewrite BR.
    rewrite map_length, seq_length, <- orb_assoc. f_equal.
    assert (HS : stride <= remain) by (unfold stride; lia).
    destruct (N.le_gt_cases pos (N.of_nat j)) as [L1|L1]; [destruct (N.lt_ge_cases (N.of_nat j) (pos + stride)) as [L2|L2]|].
    + rewrite nth_map_seq by lia.
      replace (base m i + WRITTEN_OFFSET + pos + N.of_nat (j - N.to_nat pos)) with (base m i + WRITTEN_OFFSET + N.of_nat j) by lia.
      bcases.
    + bcases.
    + bcases.
Qed.

(* ---------- the loaders compute rec_done / rec_used ---------- *)
Section G.
Variables (m : mgr) (fwi pai : nat) (bsz cnt : N).
Let g := geo_of m fwi pai bsz cnt.

Theorem load_used_is_rec_used d d' us ml : dfail d = None ->
  load_used m pai (Store.capL g * bsz) (seq 0 ml) (fun _ => false) d = (d', Some us) ->
  dmem d' = dmem d /\ forall k, (k < ml)%nat -> us k = Roundtrip.rec_used g (dmem d) k.
Proof.
  intros F H. destruct (load_used_spec _ _ _ _ _ _ _ _ F H) as (_ & M & S). split; [exact M|]. intros k Hk. rewrite S. cbn [orb].
  replace (existsb (Nat.eqb k) (seq 0 ml)) with true.
  2:{ symmetry. apply existsb_exists. exists k. split; [apply in_seq; lia| apply Nat.eqb_refl]. }
  cbn [andb]. unfold Roundtrip.rec_used, Store.mused, Store.diag, Store.raddr, rowaddr. cbn [g geo_of Store.pa Store.sz]. fold g.
  do 3 f_equal. lia.
Qed.

Theorem load_status_is_rec_done d d' dn c : wf (dmem d) -> dfail d = None ->
  load_status (S (N.to_nat (c / MAX_SEGMENT_SIZE))) m fwi 0 c (fun _ => false) d = (d', Some dn) ->
  dmem d' = dmem d /\ forall i, dn i = (N.of_nat i <? c) && Roundtrip.rec_done g (dmem d) i.
Proof.
  intros W F H.
  assert (Hf : c <= N.of_nat (S (N.to_nat (c / MAX_SEGMENT_SIZE))) * MAX_SEGMENT_SIZE) by (unfold MAX_SEGMENT_SIZE; lia).
  destruct (load_status_spec _ _ _ _ _ _ _ _ _ W F Hf H) as (_ & M & S). split; [exact M|]. intros i. rewrite S. cbn [orb].
  replace (0 <=? N.of_nat i) with true by (symmetry; apply N.leb_le; lia). cbn [andb]. rewrite N.add_0_l.
  unfold Roundtrip.rec_done, Store.saddr, stataddr. cbn [g geo_of Store.fw]. change Store.MARK with DATA_WRITTEN. change WRITTEN_OFFSET with HEADER_SIZE.
  rewrite N.add_assoc. reflexivity.
Qed.
End G.

Print Assumptions load_used_is_rec_used.
Print Assumptions load_status_is_rec_done.
