From Coq Require Import List NArith ZArith Arith Bool Lia.
Require Import Slots SlotsProof RingA Exact RingB Recover Idem Boot Life Life2 Life3 Life4 Life5 Sound Sound2 Decide RingArith Sound3.
Import ListNotations.

Section StartSteps.
Variable NS : nat.
Hypothesis HN : (4 <= NS)%nat.
Variables (sl : slots) (st : started).
Hypothesis J : JS NS sl st.
Hypothesis HW : nowrap sl.
Variables (a b : nat) (s1 s2 : N).
Hypothesis EA : alloc_repaired sl = Ok (a, b, s1, s2).

Lemma start_facts : length sl = NS /\ (a < length sl)%nat /\ (b < length sl)%nat /\ a <> b /\ (s1 < s2)%N /\
  (forall x s, x <> a -> x <> b -> seqat sl x = Some s -> (s < s1)%N).
Proof.
  destruct (reach_exact NS sl ltac:(lia) (JS_reach _ _ _ J)) as [Ln E].
  pose proof (alloc_form_unique sl a b s1 s2 HW EA) as HF.
  set (h0 := mkhdr Firmware s1 0 0 EInProgress IInProgress Untested). set (h0' := mkhdr Parity s2 0 0 EInProgress IInProgress Untested).
  destruct (VExact_alloc sl a b s1 s2 h0 h0' ltac:(lia) E HW HF eq_refl eq_refl) as (La & Lb & Nab & S12 & Hoth & _).
  repeat split; assumption.
Qed.

(* the two new numbers are consecutive *)
Lemma alloc_succ : s2 = (s1 + 1)%N.
Proof.
  destruct start_facts as (Ln & La & Lb & Nab & S12 & Hoth).
  destruct (reach_exact NS sl ltac:(lia) (JS_reach _ _ _ J)) as [_ E].
  pose proof (alloc_form_unique sl a b s1 s2 HW EA) as HF.
  set (h1 := mkhdr Firmware s1 0 0 EInProgress IInProgress Untested). set (h2 := mkhdr Parity s2 0 0 EInProgress IInProgress Untested).
  destruct (VExact_alloc sl a b s1 s2 h1 h2 ltac:(lia) E HW HF eq_refl eq_refl) as (_ & _ & _ & _ & _ & (k & K1 & K2)).
  rewrite !setnth_length in K1, K2.
  assert (Sa : seqat (setnth (setnth sl a (Some h1)) b (Some h2)) a = Some s1).
  { rewrite seqat_two by assumption. destruct (Nat.eqb_spec a b); [contradiction|]. now rewrite Nat.eqb_refl. }
  assert (Sb : seqat (setnth (setnth sl a (Some h1)) b (Some h2)) b = Some s2) by (rewrite seqat_two by assumption; now rewrite Nat.eqb_refl).
  (* b is the slot after a, in every branch *)
  assert (Bn : b = ((a + 1) mod length sl)%nat).
  { pose proof (low_spec sl) as LS. pose proof (high_spec sl) as HS.
    destruct (low_of sl) as [[lo hl]|] eqn:EL.
    2:{ unfold alloc_repaired, alloc in EA. rewrite EL in EA. destruct (high_of sl) as [[? ?]|]; inversion EA as [[Ea Eb Es1 Es2]]; try rewrite <- Ea; try rewrite <- Eb; rewrite Nat.mod_small by lia; reflexivity. }
    destruct (high_of sl) as [[hi hh]|] eqn:EH.
    2:{ destruct LS as [LS _]. rewrite HS in LS. contradiction. }
    destruct HS as [HIn _]. pose proof (indexed_lt _ _ _ HIn) as Lhi.
    destruct (alloc_decision sl a b s1 s2 lo hl hi hh HW EL EH EA) as [(Da & Db & _)|[(Da & Db)|(Da & Db & _)]]; rewrite Da, Db.
    - rewrite succ_mod by lia. reflexivity.
    - reflexivity.
    - rewrite pred_succ_mod by lia. reflexivity. }
  pose proof (K1 a s1 Sa) as Ma. pose proof (K1 b s2 Sb) as Mb. pose proof (K2 b a s2 s1 Sb Sa) as Wn.
  assert (P : ((Z.of_N s1 + k + Z.of_nat 1) mod Z.of_nat (length sl) = Z.of_nat ((a + 1) mod length sl))%Z) by (apply mod_of_nat_add; [lia| exact Ma]).
  rewrite <- Bn in P.
  assert (Q : ((Z.of_N s2 + k - (Z.of_N s1 + k + Z.of_nat 1)) mod Z.of_nat (length sl) = 0)%Z) by (rewrite Zminus_mod, Mb, P, Z.sub_diag; apply Z.mod_0_l; lia).
  destruct (Z.eq_dec (Z.of_N s2 + k - (Z.of_N s1 + k + Z.of_nat 1))%Z 0%Z) as [Z0|NZ]; [lia|]. rewrite Z.mod_small in Q by lia. lia.
Qed.

(* every in-progress parity header outside the two slots, once both are erased: case A or case B, with room for newer headers *)
Lemma par_both q hp : q <> a -> q <> b -> hd_at sl q hp -> hkind hp = Parity -> awip hp ->
  (exists f hf, f <> a /\ f <> b /\ hd_at sl f hf /\ (hseq hf + 1)%N = hseq hp /\ hkind hf = Firmware /\ (awip hf -> In (f, q) st)) \/
  (forall j sj, j <> a -> j <> b -> seqat sl j = Some sj -> (hseq hp <= sj)%N).
Proof.
  intros Na Nb Hq Kq Aq. destruct start_facts as (Ln & La & Lb & Nab & S12 & Hoth).
  set (er := fun j => Nat.eqb j a || Nat.eqb j b).
  set (sl' := setnth (setnth sl a None) b None). set (st' := dropS b (dropS a st)).
  assert (Hhd : forall j h, hd_at sl' j h <-> (er j = false /\ hd_at sl j h)).
  { intros j h. unfold sl', er. rewrite hd_at_set. destruct (Nat.eqb_spec j b) as [->|NE].
    - rewrite orb_true_r. split; [intros [_ X]; discriminate| intros [X _]; discriminate].
    - rewrite hd_at_set. destruct (Nat.eqb_spec j a) as [->|NE2]; cbn [orb]; [split; [intros [_ X]; discriminate| intros [X _]; discriminate]| tauto]. }
  assert (Hst : forall f p, In (f, p) st' <-> (In (f, p) st /\ er f = false /\ er p = false)).
  { intros f p. unfold st', er. rewrite !in_dropS. destruct (Nat.eqb_spec f a), (Nat.eqb_spec f b), (Nat.eqb_spec p a), (Nat.eqb_spec p b); cbn; split; intros H; try tauto; destruct H as (_ & H1 & H2); discriminate. }
  assert (Eq : er q = false) by (unfold er; destruct (Nat.eqb_spec q a), (Nat.eqb_spec q b); try contradiction; reflexivity).
  destruct (par_keep NS HN sl st J HW a b s1 s2 EA er sl' st' ltac:(unfold sl'; now rewrite !setnth_length) Hhd Hst
              ltac:(unfold er; now rewrite Nat.eqb_refl, orb_true_r)
              ltac:(unfold er; intros j H; apply orb_prop in H; destruct H as [H|H]; apply Nat.eqb_eq in H; auto) q hp Eq Hq Kq Aq) as [A|[B|[C _]]].
  - left. destruct A as (f & hf & Hf & Sf & Kf & Inf). apply Hhd in Hf. destruct Hf as [Ef Hf].
    unfold er in Ef. apply orb_false_elim in Ef. destruct Ef as [E1 E2]. apply Nat.eqb_neq in E1. apply Nat.eqb_neq in E2.
    exists f, hf. repeat (split; [assumption|]). intros Af. apply Hst in Inf; [|exact Af]. tauto.
  - right. intros j sj Nja Njb Sj. apply (B j sj). apply (seqat' sl er sl' Hhd). split; [|exact Sj].
    unfold er. destruct (Nat.eqb_spec j a), (Nat.eqb_spec j b); try contradiction; reflexivity.
  - exfalso. unfold er in C. rewrite Nat.eqb_refl in C. discriminate.
Qed.
End StartSteps.
