(* FlashMatrixStorage / FlashParityStorage (parity-reconstruct/src/flash.rs) as modelled in Adapt.v: layout arithmetic.
   Rows are packed back to back in write-size units, so distinct rows never overlap, and num_rows never advertises a row
   that does not fit the configured range. *)
From Coq Require Import List NArith ZArith Arith Bool Lia ZifyBool ZifyN ZifyNat.
Require Import Adapt.
Import ListNotations.
Open Scope N_scope.
Ltac Zify.zify_post_hook ::= Z.div_mod_to_equations.

Lemma round_up_8 v : round_up v 8 / 8 = (v + 7) / 8.
Proof. unfold round_up. change (v + 8 - 1) with (v + 8 - 1). replace (v + 8 - 1) with (v + 7) by lia. rewrite N.div_mul by discriminate. reflexivity. Qed.

(* a row of chunk c = m / (8 W) occupies (c + 1) write units *)
Lemma row_size_spec W m : 1 <= W -> row_size W m = (m / (8 * W) + 1) * W.
Proof.
  intros HW. unfold row_size. rewrite round_up_8. replace (m + 1 + 7) with (m + 1 * 8) by lia.
  rewrite N.div_add by discriminate. unfold round_up.
  assert (W0 : W <> 0) by lia.
  replace (m / 8 + 1 + W - 1) with (m / 8 + 1 * W) by (clear; lia). rewrite N.div_add by exact W0.
  rewrite N.div_div by (exact W0 || discriminate). reflexivity.
Qed.

Lemma row_size_pos W m : 1 <= W -> W <= row_size W m /\ row_size W m mod W = 0.
Proof. intros HW. rewrite row_size_spec by exact HW. split; [rewrite N.mul_add_distr_r; generalize (m / (8 * W) * W); intros; lia| apply N.mod_mul; lia]. Qed.

(* back-to-back packing *)
Theorem row_offset_succ W m : 1 <= W -> row_offset W (m + 1) = row_offset W m + row_size W m.
Proof.
  intros HW. unfold row_offset. rewrite !row_size_spec by exact HW. cbv zeta.
  replace (W * 8) with (8 * W) by lia.
  set (K := 8 * W). assert (HK : 1 <= K) by (unfold K; lia).
  pose proof (N.div_mod m K ltac:(lia)) as DM. pose proof (N.mod_lt m K ltac:(lia)) as ML.
  set (c := m / K) in *. set (p := m mod K) in *. clearbody c p.
  destruct (N.eq_dec (p + 1) K) as [E|NE].
  - assert (Q : (m + 1) / K = c + 1 /\ (m + 1) mod K = 0).
    { assert (m + 1 = (c + 1) * K) by nia. split; [rewrite H; apply N.div_mul; lia| rewrite H; apply N.mod_mul; lia]. }
    destruct Q as [-> ->]. unfold K in *. nia.
  - assert (Q : (m + 1) / K = c /\ (m + 1) mod K = p + 1).
    { assert (m + 1 = K * c + (p + 1)) by lia. split.
      - symmetry. apply (N.div_unique (m + 1) K c (p + 1)); lia.
      - symmetry. apply (N.mod_unique (m + 1) K c (p + 1)); lia. }
    destruct Q as [-> ->]. nia.
Qed.

Lemma row_offset_0 W : 1 <= W -> row_offset W 0 = 0.
Proof. intros HW. unfold row_offset. cbv zeta. rewrite N.div_0_l, N.mod_0_l by (clear - HW; lia). reflexivity. Qed.

(* the offset of row k is the total size of the rows below it *)
Fixpoint sum_sizes (W : N) (k : nat) : N := match k with O => 0 | S j => sum_sizes W j + row_size W (N.of_nat j) end.
Lemma row_offset_sum W k : 1 <= W -> row_offset W (N.of_nat k) = sum_sizes W k.
Proof.
  intros HW. induction k as [|k IH]; cbn [sum_sizes]; [apply row_offset_0; exact HW|].
  rewrite <- IH. replace (N.of_nat (S k)) with (N.of_nat k + 1) by lia. apply row_offset_succ. exact HW.
Qed.

(* distinct rows occupy disjoint byte ranges *)
Lemma row_offset_mono W : 1 <= W -> forall d a, row_offset W a + row_size W a <= row_offset W (a + 1 + d).
Proof.
  intros HW. induction d as [|d IH] using N.peano_ind; intros a.
  - rewrite N.add_0_r, row_offset_succ by exact HW. lia.
  - replace (a + 1 + N.succ d) with ((a + 1 + d) + 1) by lia. rewrite row_offset_succ by exact HW.
    specialize (IH a). lia.
Qed.
Theorem rows_disjoint W a b : 1 <= W -> a < b -> row_offset W a + row_size W a <= row_offset W b.
Proof. intros HW H. replace b with (a + 1 + (b - a - 1)) by lia. apply row_offset_mono. exact HW. Qed.

(* num_rows: every advertised row lies strictly inside the range *)
Lemma num_rows_from_spec W range_len bits : 1 <= W -> forall fuel size k,
  size = row_offset W k ->
  forall j, k <= j < num_rows_from fuel W range_len bits size k -> row_offset W j + row_size W j < range_len /\ j < bits.
Proof.
  intros HW. induction fuel as [|f IH]; intros size k Hs j Hj; cbn [num_rows_from] in Hj; [lia|].
  destruct ((size + row_size W k <? range_len) && (k <? bits)) eqn:C; [|lia].
  apply andb_prop in C. destruct C as [C1 C2]. apply N.ltb_lt in C1. apply N.ltb_lt in C2.
  destruct (N.eq_dec j k) as [->|Hne].
  - subst size. split; assumption.
  - apply (IH (size + row_size W k) (k + 1)); [subst size; symmetry; apply row_offset_succ; exact HW| lia].
Qed.

Theorem num_rows_fit W range_len nb j : 1 <= W -> j < matrix_num_rows W range_len nb ->
  row_offset W j + row_size W j < range_len /\ j < N.of_nat (8 * nb).
Proof.
  intros HW Hj. unfold matrix_num_rows in Hj.
  apply (num_rows_from_spec W range_len (N.of_nat (8 * nb)) HW (S (8 * nb)) 0 0); [symmetry; apply row_offset_0; exact HW| lia].
Qed.

(* ---------- programs stay inside the row / block slot ---------- *)
Lemma w_write_ok d a bs d' : w_write d a bs = (d', true) ->
  wm d' = programl (wm d) a bs /\ wW d' = wW d /\ wcap d' = wcap d /\ a + N.of_nat (length bs) <= wcap d.
Proof.
  unfold w_write. destruct (negb _); [discriminate|]. destruct (N.ltb_spec (wcap d) (a + N.of_nat (length bs))) as [|LE]; [discriminate|].
  intros Q. inversion Q; subst. cbn. repeat split; try reflexivity. exact LE.
Qed.
Lemma programl_outside m a bs x : x < a \/ a + N.of_nat (length bs) <= x -> programl m a bs x = m x.
Proof.
  intros H. unfold programl. destruct ((a <=? x) && (x <? a + N.of_nat (length bs))) eqn:C; [|reflexivity].
  apply andb_prop in C. destruct C as [C1 C2]. apply N.leb_le in C1. apply N.ltb_lt in C2. lia.
Qed.

(* a successful set_row changes nothing outside [start + row_offset, + row_size) and stays inside the device *)
Theorem matrix_set_row_confined start nb d m raw d' : 1 <= wW d -> length raw = nb ->
  matrix_set_row start nb d m raw = (d', AOk tt) ->
  (forall x, x < start + row_offset (wW d) m \/ start + row_offset (wW d) m + row_size (wW d) m <= x -> wm d' x = wm d x) /\
  wW d' = wW d.
Proof.
  intros HW Hlen H. unfold matrix_set_row in H. cbv zeta in H.
  destruct (row_size_pos (wW d) m HW) as [RS _].
  set (rs := row_size (wW d) m) in *. set (a := start + row_offset (wW d) m) in *.
  destruct (N.ltb_spec (N.of_nat nb) rs) as [L1|L1].
  - destruct (N.ltb_spec (N.of_nat nb) (rs - wW d)) as [L2|L2]; [discriminate|].
    destruct (w_write d a (firstn (N.to_nat (rs - wW d)) raw)) as [d1 [|]] eqn:W1; [|discriminate].
    destruct (w_write_ok _ _ _ _ W1) as (M1 & WW1 & _ & _).
    assert (LB : length (firstn (N.to_nat (rs - wW d)) raw) = N.to_nat (rs - wW d)) by (rewrite firstn_length; lia).
    destruct (Nat.eqb_spec (length (skipn (N.to_nat (rs - wW d)) raw)) 0) as [E0|E0].
    + inversion H; subst. split; [|exact WW1]. intros x Hx. rewrite M1. apply programl_outside. rewrite LB. lia.
    + destruct (w_write d1 _ _) as [d2 [|]] eqn:W2; [|discriminate]. inversion H; subst.
      destruct (w_write_ok _ _ _ _ W2) as (M2 & WW2 & _ & _). split; [|congruence]. intros x Hx.
      rewrite M2, programl_outside; [rewrite M1; apply programl_outside; rewrite LB; lia|].
      rewrite app_length, LB. unfold zz. rewrite repeat_length, skipn_length. lia.
  - destruct (w_write d a (firstn (N.to_nat rs) raw)) as [d1 [|]] eqn:W1; [|discriminate]. inversion H; subst.
    destruct (w_write_ok _ _ _ _ W1) as (M1 & WW1 & _ & _). split; [|exact WW1]. intros x Hx. rewrite M1. apply programl_outside.
    rewrite firstn_length. lia.
Qed.

(* storing row a never changes a byte of row b *)
Theorem matrix_rows_do_not_interfere start nb d ma raw d' mb x : 1 <= wW d -> length raw = nb -> ma <> mb ->
  matrix_set_row start nb d ma raw = (d', AOk tt) ->
  start + row_offset (wW d) mb <= x < start + row_offset (wW d) mb + row_size (wW d) mb -> wm d' x = wm d x.
Proof.
  intros HW Hlen Hne H Hx. destruct (matrix_set_row_confined start nb d ma raw d' HW Hlen H) as [C _]. apply C.
  destruct (N.lt_ge_cases ma mb) as [L|L].
  - pose proof (rows_disjoint (wW d) ma mb HW L). lia.
  - assert (L' : mb < ma) by lia. pose proof (rows_disjoint (wW d) mb ma HW L'). lia.
Qed.

(* parity blocks: slot i is [start + i * round_up L W, + round_up L W) *)
Lemma round_up_ge v w : 1 <= w -> v <= round_up v w /\ round_up v w mod w = 0 /\ round_down v w <= v /\
  (v mod w <> 0 -> round_down v w + w = round_up v w) /\ (v mod w = 0 -> round_down v w = v /\ round_up v w = v).
Proof.
  intros Hw. unfold round_up, round_down.
  pose proof (N.div_mod v w ltac:(lia)) as DM. pose proof (N.mod_lt v w ltac:(lia)) as ML.
  set (q := v / w) in *. set (r := v mod w) in *. clearbody q r.
  assert (Q : (v + w - 1) / w = if r =? 0 then q else q + 1).
  { destruct (N.eqb_spec r 0) as [->|Hr].
    - symmetry. apply (N.div_unique (v + w - 1) w q (w - 1)); lia.
    - symmetry. apply (N.div_unique (v + w - 1) w (q + 1) (r - 1)); lia. }
  rewrite Q. split; [destruct (r =? 0) eqn:E; [apply N.eqb_eq in E|]; nia|].
  split; [apply N.mod_mul; lia|]. split; [nia|]. split; intros Hr.
  - destruct (N.eqb_spec r 0); [contradiction| nia].
  - rewrite Hr, N.eqb_refl. nia.
Qed.

Theorem parity_store_confined start d i data d' : 1 <= wW d ->
  parity_store start d i data = (d', AOk tt) ->
  let up := round_up (N.of_nat (length data)) (wW d) in
  forall x, x < start + i * up \/ start + i * up + up <= x -> wm d' x = wm d x.
Proof.
  intros HW H up x Hx. unfold parity_store in H. cbv zeta in H. fold up in H.
  set (L := N.of_nat (length data)) in *. set (dn := round_down L (wW d)) in *.
  destruct (round_up_ge L (wW d) HW) as (U1 & U2 & U3 & U4 & U5). fold up dn in U1, U2, U3, U4, U5.
  destruct (w_write d (start + i * up) (firstn (N.to_nat dn) data)) as [d1 [|]] eqn:W1; [|discriminate].
  destruct (w_write_ok _ _ _ _ W1) as (M1 & WW1 & _ & _).
  assert (LB : length (firstn (N.to_nat dn) data) = N.to_nat dn) by (rewrite firstn_length; lia).
  destruct (Nat.eqb_spec (length (skipn (N.to_nat dn) data)) 0) as [E0|E0].
  - inversion H; subst. rewrite M1. apply programl_outside. rewrite LB. lia.
  - destruct (w_write d1 _ _) as [d2 [|]] eqn:W2; [|discriminate]. inversion H; subst.
    destruct (w_write_ok _ _ _ _ W2) as (M2 & _ & _ & _).
    rewrite skipn_length in E0.
    assert (NZ : L mod wW d <> 0) by (intros Z; destruct (U5 Z) as [Q _]; lia).
    specialize (U4 NZ).
    rewrite M2, programl_outside; [rewrite M1; apply programl_outside; rewrite LB; lia|].
    rewrite app_length. unfold zz. rewrite repeat_length, skipn_length.
    assert (length data - N.to_nat dn <= N.to_nat (wW d))%nat by lia. lia.
Qed.

Print Assumptions rows_disjoint.
Print Assumptions num_rows_fit.
Print Assumptions matrix_rows_do_not_interfere.
Print Assumptions parity_store_confined.
