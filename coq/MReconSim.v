(* The fault-aware executable reconstructor (MRecon.v over the instrumented in-memory storages, no fault armed) IS the
   event-logging model Recon.v on which C02 / C03 / C09 are proved: same results, same storage calls in the same order,
   same stores, same bookkeeping. *)
From Coq Require Import List NArith Arith Bool Lia.
Require Recon.
Require Import MRecon.
Import ListNotations.
Open Scope N_scope.

Definition ev_of (e : Recon.event) : event :=
  match e with
  | Recon.EDataStore i b => EDataStore i b | Recon.EDataGet i => EDataGet i
  | Recon.EParStore m b => EParStore m b | Recon.EParGet m => EParGet m
  | Recon.EMatSet m r => EMatSet m r | Recon.EMatGet m => EMatGet m
  end.
Definition res_of (r : Recon.result) : result :=
  match r with Recon.NeedMore => NeedMore | Recon.TooManyMissing => TooManyMissing | Recon.Done l => Done l end.

Definition to_st (s : rdata) (a : ast) : Recon.st :=
  Recon.mkst (n s) (l s) (bs s) (done s) (used s) (dat a) (par a) (mat a).
Definition rd_of (t : Recon.st) : rdata := mkr (Recon.n t) (Recon.l t) (Recon.bs t) (Recon.done t) (Recon.used t).
Definition nofail (a : ast) : Prop := fail_at a = None.
(* the storage state after the Recon-level step: stores of [t'], the events [es] appended to the log *)
Definition after (a : ast) (t' : Recon.st) (es : list Recon.event) : ast :=
  mka (Recon.dat t') (Recon.par t') (Recon.mat t') (rev (map ev_of es) ++ evs a) (length es + opc a) None.

Lemma after_nil a s : nofail a -> after a (to_st s a) [] = a.
Proof. intros H. destruct a as [d p m e o f]. unfold nofail in H. cbn in *. subst f. reflexivity. Qed.
Lemma after_nofail a t es : nofail (after a t es).
Proof. reflexivity. Qed.
Lemma after_cons a t t' e es : after (after a t [e]) t' es = after a t' (e :: es).
Proof.
  unfold after. cbn [dat par mat evs opc map rev length app]. f_equal.
  - rewrite <- app_assoc. reflexivity.
  - lia.
Qed.
Lemma after_app a t t' es1 es2 : after (after a t es1) t' es2 = after a t' (es1 ++ es2).
Proof.
  unfold after. cbn [dat par mat evs opc]. f_equal.
  - rewrite map_app, rev_app_distr, <- app_assoc. reflexivity.
  - rewrite app_length. lia.
Qed.

(* the six storage operations without a fault *)
Lemma dget_ok s a i : nofail a -> m_dget abs_sto a i = (after a (to_st s a) [Recon.EDataGet i], Some (Recon.getb (dat a i))).
Proof. intros H. cbn [abs_sto m_dget]. unfold tick. rewrite H. reflexivity. Qed.
Lemma pget_ok s a i : nofail a -> m_pget abs_sto a i = (after a (to_st s a) [Recon.EParGet i], Some (Recon.getb (par a i))).
Proof. intros H. cbn [abs_sto m_pget]. unfold tick. rewrite H. reflexivity. Qed.
Lemma mget_ok s a i : nofail a -> m_mget abs_sto a i = (after a (to_st s a) [Recon.EMatGet i], Some (Recon.getb (mat a i))).
Proof. intros H. cbn [abs_sto m_mget]. unfold tick. rewrite H. reflexivity. Qed.

(* ---- strip ---- *)
Definition sstep (s : rdata) (a : ast) (r : N) := fun '(d, ev) i =>
  if Recon.bit r i && done s i then (N.lxor d (Recon.getb (dat a i)), ev ++ [Recon.EDataGet i]) else (d, ev : list Recon.event).

Lemma strip_sim s r : forall is a d ev0, nofail a ->
  exists d' es, fold_left (sstep s a r) is (d, ev0) = (d', ev0 ++ es) /\
                strip abs_sto s r is a d = (after a (to_st s a) es, Some d').
Proof.
  induction is as [|i is IH]; intros a d ev0 H; cbn [fold_left strip].
  - exists d, []. rewrite app_nil_r, after_nil by exact H. auto.
  - unfold sstep at 2. change (MRecon.bit r i) with (Recon.bit r i).
    destruct (Recon.bit r i && done s i).
    + rewrite (dget_ok s a i H).
      destruct (IH (after a (to_st s a) [Recon.EDataGet i]) (N.lxor d (Recon.getb (dat a i))) (ev0 ++ [Recon.EDataGet i]) (after_nofail _ _ _)) as (d' & es & F & S).
      exists d', (Recon.EDataGet i :: es). split.
      * assert (E : sstep s (after a (to_st s a) [Recon.EDataGet i]) r = sstep s a r) by reflexivity.
        rewrite E in F. rewrite F, <- app_assoc. reflexivity.
      * rewrite S. f_equal. apply after_cons.
    + apply IH. exact H.
Qed.

Lemma to_st_rd t a es : to_st (rd_of t) (after a t es) = t.
Proof. destruct t. reflexivity. Qed.

Lemma pput_ok s a k b : nofail a ->
  m_pput abs_sto a k b = (after a (Recon.mkst (n s) (l s) (bs s) (done s) (used s) (dat a) (Recon.upd (par a) k (Some b)) (mat a)) [Recon.EParStore k b], true).
Proof. intros H. cbn [abs_sto m_pput]. unfold tick. rewrite H. reflexivity. Qed.
Lemma mput_ok s a k b : nofail a ->
  m_mput abs_sto a k b = (after a (Recon.mkst (n s) (l s) (bs s) (done s) (used s) (dat a) (par a) (Recon.upd (mat a) k (Some b))) [Recon.EMatSet k b], true).
Proof. intros H. cbn [abs_sto m_mput]. unfold tick. rewrite H. reflexivity. Qed.
Lemma dput_ok s a k b : nofail a ->
  m_dput abs_sto a k b = (after a (Recon.mkst (n s) (l s) (bs s) (done s) (used s) (Recon.upd (dat a) k (Some b)) (par a) (mat a)) [Recon.EDataStore k b], true).
Proof. intros H. cbn [abs_sto m_dput]. unfold tick. rewrite H. reflexivity. Qed.

(* ---- elimination ---- *)
Lemma elim_sim : forall wh s a r d ev0, nofail a ->
  exists es, snd (Recon.elim (to_st s a) wh r d ev0) = ev0 ++ es /\
    elim abs_sto s wh r d a = (rd_of (fst (Recon.elim (to_st s a) wh r d ev0)), after a (fst (Recon.elim (to_st s a) wh r d ev0)) es, true).
Proof.
  induction wh as [|k IH]; intros s a r d ev0 H; cbn [Recon.elim elim].
  - change (MRecon.bit r 0) with (Recon.bit r 0). change (Recon.used (to_st s a) 0%nat) with (used s 0%nat).
    destruct (Recon.bit r 0).
    + destruct (used s 0%nat) eqn:U.
      * rewrite (pget_ok s a 0%nat H). rewrite (mget_ok s _ 0%nat (after_nofail _ _ _)). cbn [fst snd].
        exists [Recon.EParGet 0%nat; Recon.EMatGet 0%nat]. split; [reflexivity|].
        rewrite after_app. cbn [app]. destruct s; reflexivity.
      * rewrite (pput_ok s a 0%nat d H). rewrite (mput_ok s _ 0%nat r (after_nofail _ _ _)). cbn [fst snd].
        exists [Recon.EParStore 0%nat d; Recon.EMatSet 0%nat r]. split; [reflexivity|]. rewrite after_app. reflexivity.
    + cbn [fst snd]. exists []. rewrite app_nil_r, after_nil by exact H. destruct s; auto.
  - change (MRecon.bit r (S k)) with (Recon.bit r (S k)). change (Recon.used (to_st s a) (S k)) with (used s (S k)).
    destruct (Recon.bit r (S k)).
    + destruct (used s (S k)) eqn:U.
      * rewrite (pget_ok s a (S k) H). rewrite (mget_ok s _ (S k) (after_nofail _ _ _)). rewrite after_app. cbn [app].
        set (a2 := after a (to_st s a) [Recon.EParGet (S k); Recon.EMatGet (S k)]).
        destruct (IH s a2 (N.lxor r (Recon.getb (mat a (S k)))) (N.lxor d (Recon.getb (par a (S k)))) (ev0 ++ [Recon.EParGet (S k); Recon.EMatGet (S k)]) (after_nofail _ _ _)) as (es & E1 & E2).
        assert (TS : to_st s a2 = to_st s a) by reflexivity. rewrite TS in E1, E2.
        change (Recon.mat (to_st s a) (S k)) with (mat a (S k)). change (Recon.par (to_st s a) (S k)) with (par a (S k)).
        exists (Recon.EParGet (S k) :: Recon.EMatGet (S k) :: es). split.
        -- rewrite E1, <- app_assoc. reflexivity.
        -- transitivity (elim abs_sto s k (N.lxor r (Recon.getb (mat a (S k)))) (N.lxor d (Recon.getb (par a (S k)))) a2); [reflexivity|].
           rewrite E2. f_equal. unfold a2. rewrite after_app. reflexivity.
      * rewrite (pput_ok s a (S k) d H). rewrite (mput_ok s _ (S k) r (after_nofail _ _ _)). cbn [fst snd].
        exists [Recon.EParStore (S k) d; Recon.EMatSet (S k) r]. split; [reflexivity|]. rewrite after_app. reflexivity.
    + apply IH. exact H.
Qed.

(* ---- back substitution ---- *)
Definition fstep (s : rdata) (a : ast) (r : N) := fun '(o, ev) j =>
  if Recon.bit r j then (N.lxor o (Recon.getb (dat a (unk s j))), ev ++ [Recon.EDataGet (unk s j)]) else (o, ev : list Recon.event).

Lemma frow_sim s r : forall js a o ev0, nofail a ->
  exists o' es, fold_left (fstep s a r) js (o, ev0) = (o', ev0 ++ es) /\
                frow abs_sto (unknowns s) r js a o = (after a (to_st s a) es, Some o').
Proof.
  induction js as [|j js IH]; intros a o ev0 H; cbn [fold_left frow].
  - exists o, []. rewrite app_nil_r, after_nil by exact H. auto.
  - unfold fstep at 2. change (MRecon.bit r j) with (Recon.bit r j).
    destruct (Recon.bit r j).
    + change (nth j (unknowns s) 0%nat) with (unk s j). rewrite (dget_ok s a (unk s j) H).
      destruct (IH (after a (to_st s a) [Recon.EDataGet (unk s j)]) (N.lxor o (Recon.getb (dat a (unk s j)))) (ev0 ++ [Recon.EDataGet (unk s j)]) (after_nofail _ _ _)) as (o' & es & F & S).
      exists o', (Recon.EDataGet (unk s j) :: es). split.
      * assert (E : fstep s (after a (to_st s a) [Recon.EDataGet (unk s j)]) r = fstep s a r) by reflexivity.
        rewrite E in F. rewrite F, <- app_assoc. reflexivity.
      * rewrite S. f_equal. apply after_cons.
    + apply IH. exact H.
Qed.

Lemma finish_row_sim s a i : nofail a ->
  finish_row abs_sto (unknowns s) i a = (after a (fst (Recon.finish_row (to_st s a) i)) (snd (Recon.finish_row (to_st s a) i)), true)
  /\ rd_of (fst (Recon.finish_row (to_st s a) i)) = s.
Proof.
  intros H. unfold finish_row, Recon.finish_row.
  rewrite (pget_ok s a i H). rewrite (mget_ok s _ i (after_nofail _ _ _)). rewrite after_app. cbn [app].
  set (a2 := after a (to_st s a) [Recon.EParGet i; Recon.EMatGet i]).
  destruct (frow_sim s (Recon.getb (mat a i)) (seq 0 i) a2 (Recon.getb (par a i)) [Recon.EParGet i; Recon.EMatGet i] (after_nofail _ _ _)) as (o' & es & F & S).
  change (Recon.getb (Recon.mat (to_st s a) i)) with (Recon.getb (mat a i)).
  change (Recon.getb (Recon.par (to_st s a) i)) with (Recon.getb (par a i)).
  assert (FE : (fun '(o, ev) j => if Recon.bit (Recon.getb (mat a i)) j
                 then (N.lxor o (Recon.getb (Recon.dat (to_st s a) (Recon.unk (to_st s a) j))), ev ++ [Recon.EDataGet (Recon.unk (to_st s a) j)])
                 else (o, ev)) = fstep s a2 (Recon.getb (mat a i))) by reflexivity.
  rewrite FE, F. cbn [fst snd]. split; [|destruct s; reflexivity].
  assert (S' : frow abs_sto (unknowns s) (Recon.getb (mat a i)) (seq 0 i) a2 (Recon.getb (par a i)) = (after a2 (to_st s a2) es, Some o')) by exact S.
  change (Recon.getb (mat (after a (to_st s a) [Recon.EParGet i]) i)) with (Recon.getb (mat a i)).
  replace (after a (to_st s (after a (to_st s a) [Recon.EParGet i])) [Recon.EParGet i; Recon.EMatGet i]) with a2 by reflexivity.
  rewrite S'. change (nth i (unknowns s) 0%nat) with (unk s i).
  rewrite (dput_ok s _ (unk s i) o' (after_nofail _ _ _)).
  f_equal. unfold a2. rewrite !after_app. rewrite app_assoc. reflexivity.
Qed.

Definition fin_step := fun '(s, ev) i => let '(s', e) := Recon.finish_row s i in (s', ev ++ e : list Recon.event).

Lemma finish_sim s : forall is a ev0, nofail a ->
  exists es, snd (fold_left fin_step is (to_st s a, ev0)) = ev0 ++ es /\
             finish abs_sto (unknowns s) is a = (after a (fst (fold_left fin_step is (to_st s a, ev0))) es, true) /\
             rd_of (fst (fold_left fin_step is (to_st s a, ev0))) = s.
Proof.
  induction is as [|i is IH]; intros a ev0 H; cbn [fold_left finish].
  - exists []. cbn [fst snd]. rewrite app_nil_r, after_nil by exact H. repeat split; destruct s; reflexivity.
  - destruct (finish_row_sim s a i H) as [F R]. rewrite F.
    unfold fin_step at 2 4 6. destruct (Recon.finish_row (to_st s a) i) as [t1 e1] eqn:FR. cbn [fst snd] in *.
    set (a1 := after a t1 e1).
    assert (T1 : t1 = to_st s a1) by (unfold a1; rewrite <- R at 1; symmetry; apply to_st_rd).
    destruct (IH a1 (ev0 ++ e1) (after_nofail _ _ _)) as (es & E1 & E2 & E3).
    rewrite <- T1 in E1, E2, E3.
    exists (e1 ++ es). split; [rewrite E1, app_assoc; reflexivity|]. split; [|exact E3].
    rewrite E2. f_equal. unfold a1. apply after_app.
Qed.

Lemma is_complete_eq s a : Recon.is_complete (to_st s a) = is_complete s.
Proof. reflexivity. Qed.
Lemma project_eq s a r : Recon.project (to_st s a) r = project s r.
Proof. reflexivity. Qed.

(* ---- one call ---- *)
Theorem handle_block_sim P cap vbits s a idx b : nofail a ->
  let '(t', r, es) := Recon.handle_block P cap vbits (to_st s a) idx b in
  handle_block abs_sto P cap vbits s a idx b = (rd_of t', after a t' es, Ok (res_of r)).
Proof.
  intros H.
  set (enter := Nat.leb (n s) idx && Nat.eqb (l s) 0).
  set (l2 := if enter then missing s else l s).
  set (s1 := mkr (n s) l2 (bs s) (done s) (used s)).
  assert (RH : Recon.handle_block P cap vbits (to_st s a) idx b =
    if is_complete s then (to_st s a, Recon.Done (Recon.done_len (to_st s a)), []) else
    if enter && (Nat.ltb vbits l2 || Nat.ltb cap l2) then (to_st s a, Recon.TooManyMissing, []) else
    if Nat.eqb l2 0 then
      let '(s2, ev) := if done s idx then (to_st s1 a, [])
                       else (Recon.mkst (n s) l2 (bs s) (Recon.upd (done s) idx true) (used s) (Recon.upd (dat a) idx (Some b)) (par a) (mat a), [Recon.EDataStore idx b]) in
      (s2, if Recon.is_complete s2 then Recon.Done (Recon.done_len s2) else Recon.NeedMore, ev)
    else
      let '(s2, ev) := Recon.handle_parity P (to_st s1 a) idx b in
      if Recon.is_complete s2 then let '(s3, ev') := Recon.finish s2 in (s3, Recon.Done (Recon.done_len s3), ev ++ ev')
      else (s2, Recon.NeedMore, ev)) by reflexivity.
  rewrite RH. clear RH. unfold handle_block. fold enter. fold l2. fold s1.
  destruct (is_complete s) eqn:IC.
  { rewrite after_nil by exact H. destruct s; reflexivity. }
  destruct (enter && (Nat.ltb vbits l2 || Nat.ltb cap l2)).
  { rewrite after_nil by exact H. destruct s; reflexivity. }
  change (l s1) with l2. change (done s1 idx) with (done s idx).
  destruct (Nat.eqb l2 0) eqn:L0.
  - destruct (done s idx) eqn:D.
    + rewrite is_complete_eq. rewrite after_nil by exact H.
      destruct (is_complete s1); reflexivity.
    + rewrite (dput_ok s1 a idx b H).
      match goal with |- context [Recon.is_complete ?t] => change (Recon.is_complete t) with (is_complete (mkr (n s) l2 (bs s) (upd (done s) idx true) (used s))) end.
      change (n s1) with (n s). change (bs s1) with (bs s). change (done s1) with (done s). change (used s1) with (used s).
      change (done_len {| n := n s; l := l2; bs := bs s; done := upd (done s) idx true; used := used s |})
        with (Recon.done_len (Recon.mkst (n s) l2 (bs s) (Recon.upd (done s) idx true) (used s) (Recon.upd (dat a) idx (Some b)) (par a) (mat a))).
      destruct (is_complete {| n := n s; l := l2; bs := bs s; done := upd (done s) idx true; used := used s |}); reflexivity.
  - unfold Recon.handle_parity, Recon.strip.
    change (Recon.n (to_st s1 a)) with (n s1). change (Recon.l (to_st s1 a)) with (l s1).
    destruct (strip_sim s1 (P idx) (seq 0 (n s1)) a b [] H) as (d' & es1 & F1 & S1).
    match goal with |- context [fold_left ?f ?ll ?x] => destruct (fold_left f ll x) as [dd ee] eqn:FF end.
    assert (X : (dd, ee) = (d', [] ++ es1)) by (rewrite <- FF; exact F1). cbn [app] in X. inversion X; subst dd ee. clear X FF.
    change (n s1) with (n s) in S1. change (n s1) with (n s). rewrite S1.
    set (a1 := after a (to_st s1 a) es1).
    destruct (elim_sim (l s1 - 1) s1 a1 (project s1 (P idx)) d' es1 (after_nofail _ _ _)) as (es2 & E1 & E2).
    change (to_st s1 a1) with (to_st s1 a) in E1, E2.
    match goal with |- context [elim abs_sto ?x ?w ?r ?d ?c] => destruct (elim abs_sto x w r d c) as [[sx cx] bx] eqn:EE end.
    match goal with |- context [Recon.elim ?x ?w ?r ?d ?e] => destruct (Recon.elim x w r d e) as [t2 ev2] eqn:EL end.
    assert (E1' : ev2 = es1 ++ es2) by (change ev2 with (snd (t2, ev2)); rewrite <- EL; exact E1).
    assert (E2' : (sx, cx, bx) = (rd_of t2, after a1 t2 es2, true)) by (rewrite <- EE; change t2 with (fst (t2, ev2)); rewrite <- EL; exact E2).
    inversion E2'; subst sx cx bx ev2. clear E2' EE.
    assert (IC2 : Recon.is_complete t2 = is_complete (rd_of t2)) by (destruct t2; reflexivity).
    rewrite IC2. destruct (is_complete (rd_of t2)) eqn:C2.
    + set (a2 := after a1 t2 es2).
      assert (T2 : t2 = to_st (rd_of t2) a2) by (unfold a2; symmetry; apply to_st_rd).
      unfold Recon.finish. change (Recon.l t2) with (l (rd_of t2)).
      destruct (finish_sim (rd_of t2) (seq 0 (l (rd_of t2))) a2 [] (after_nofail _ _ _)) as (es3 & G1 & G2 & G3).
      rewrite <- T2 in G1, G2, G3.
      assert (FS : (fun '(s0, ev) i => let '(s', e) := Recon.finish_row s0 i in (s', ev ++ e)) = fin_step) by reflexivity.
      rewrite FS. destruct (fold_left fin_step (seq 0 (l (rd_of t2))) (t2, [])) as [t3 ev3] eqn:FF. cbn [fst snd app] in *. subst ev3.
      rewrite G2. f_equal; [f_equal|].
      * rewrite G3. reflexivity.
      * unfold a2, a1. rewrite !after_app, app_assoc. reflexivity.
      * f_equal. unfold Recon.done_len, done_len. rewrite <- G3. destruct t3; reflexivity.
    + f_equal. f_equal. unfold a1. rewrite after_app. reflexivity.
Qed.

(* ---- whole runs ---- *)
Theorem run_sim P cap vbits : forall bl s a, nofail a ->
  let '(t', rs, es) := Recon.run P cap vbits (to_st s a) bl in
  let '(s', a', rs') := arun P cap vbits s a bl in
  s' = rd_of t' /\ a' = after a t' es /\ map fst rs' = map (fun r => Ok (res_of r)) rs.
Proof.
  induction bl as [|[i b] bl IH]; intros s a H; cbn [Recon.run arun].
  - rewrite after_nil by exact H. destruct s; auto.
  - pose proof (handle_block_sim P cap vbits s a i b H) as HB.
    destruct (Recon.handle_block P cap vbits (to_st s a) i b) as [[t1 r1] e1]. rewrite HB.
    specialize (IH (rd_of t1) (after a t1 e1) (after_nofail _ _ _)). rewrite to_st_rd in IH.
    destruct (Recon.run P cap vbits t1 bl) as [[t2 rs2] es2].
    destruct (arun P cap vbits (rd_of t1) (after a t1 e1) bl) as [[s2 a2] rs2'].
    destruct IH as (A & B & C). split; [exact A|]. split; [rewrite B; apply after_app|]. cbn [map fst]. rewrite C. reflexivity.
Qed.

(* the driver-facing entry point without a fault: results, the storage-call log in order and the final data store are
   those of Recon.run from the initial state - the object of recon_sound, done_iff_full_rank and trace_wf *)
Theorem run_case_is_recon n0 cap vbits bs0 tbl blocks :
  let '(t', rs, es) := Recon.run (matrix_of n0 tbl) cap vbits (Recon.init n0 bs0) blocks in
  let '(rs', evs', dat', _) := run_case n0 cap vbits bs0 None tbl blocks in
  map fst rs' = map (fun r => Ok (res_of r)) rs /\ evs' = map ev_of es /\ dat' = map (Recon.dat t') (seq 0 n0).
Proof.
  unfold run_case.
  pose proof (run_sim (matrix_of n0 tbl) cap vbits blocks (rinit n0 bs0) (ainit None) eq_refl) as R.
  change (to_st (rinit n0 bs0) (ainit None)) with (Recon.init n0 bs0) in R.
  destruct (Recon.run (matrix_of n0 tbl) cap vbits (Recon.init n0 bs0) blocks) as [[t' rs] es].
  destruct (arun (matrix_of n0 tbl) cap vbits (rinit n0 bs0) (ainit None) blocks) as [[s' a'] rs'].
  destruct R as (A & B & C). subst a'. split; [exact C|]. split.
  - cbn [after evs ainit]. rewrite app_nil_r, rev_involutive. reflexivity.
  - reflexivity.
Qed.
Print Assumptions run_case_is_recon.
