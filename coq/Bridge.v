From Coq Require Import List NArith Arith Bool Lia.
Require Recon ReconProof.
Require Import Nor Geom Store GRecon Sim.
Import ListNotations.
Open Scope N_scope.

(* the event-logging model of Recon.v and the map instance of the generic model are the same machine *)
Record Eqv (s : Recon.st) (a : gst amap) : Prop := {
  E_n : n a = Recon.n s; E_l : l a = Recon.l s; E_bs : bs a = Recon.bs s;
  E_done : forall i, done a i = Recon.done s i; E_used : forall i, used a i = Recon.used s i;
  E_dat : forall i, adat (store a) i = Recon.dat s i; E_par : forall i, apar (store a) i = Recon.par s i;
  E_mat : forall i, amat (store a) i = Recon.mat s i
}.

Lemma eqv_unknowns s a : Eqv s a -> unknowns a = Recon.unknowns s.
Proof. intros E. unfold unknowns, Recon.unknowns. rewrite (E_n s a E). apply filter_ext. intros i. now rewrite (E_done s a E). Qed.
Lemma eqv_missing s a : Eqv s a -> missing a = Recon.missing s.
Proof. intros E. unfold missing, Recon.missing. now rewrite (eqv_unknowns s a E). Qed.
Lemma eqv_unk s a j : Eqv s a -> unk a j = Recon.unk s j.
Proof. intros E. unfold unk, Recon.unk. now rewrite (eqv_unknowns s a E). Qed.
Lemma eqv_complete s a : Eqv s a -> is_complete a = Recon.is_complete s.
Proof.
  intros E. unfold is_complete, Recon.is_complete. rewrite (E_l s a E), (E_n s a E).
  destruct (Nat.eqb (Recon.l s) 0); apply Sim.forallb_ext'; [apply (E_done s a E)| apply (E_used s a E)].
Qed.
Lemma eqv_project s a r : Eqv s a -> project a r = Recon.project s r.
Proof. intros E. unfold project, Recon.project. now rewrite (eqv_unknowns s a E). Qed.

Lemma eqv_strip s a r d : Eqv s a -> strip map_sto a r d = fst (Recon.strip s r d).
Proof.
  intros E. unfold strip, Recon.strip. rewrite (E_n s a E).
  assert (H : forall L d ev,
     fold_left (fun d i => if bit r i && done a i then N.lxor d (dget map_sto (store a) i) else d) L d =
     fst (fold_left (fun '(d, ev) i => if Recon.bit r i && Recon.done s i then (N.lxor d (Recon.getb (Recon.dat s i)), ev ++ [Recon.EDataGet i]) else (d, ev)) L (d, ev))).
  { induction L as [|i L IH]; intros d0 ev; cbn [fold_left]; [reflexivity|].
    rewrite (E_done s a E). unfold bit, Recon.bit. destruct (N.testbit r (N.of_nat i) && Recon.done s i).
    - cbn [dget map_sto]. rewrite (E_dat s a E). apply IH.
    - apply IH. }
  apply H.
Qed.

Lemma eqv_elim s a : Eqv s a -> forall wh r d ev, Eqv (fst (Recon.elim s wh r d ev)) (elim map_sto a wh r d).
Proof.
  intros E. induction wh as [|k IH]; intros r d ev; cbn [elim Recon.elim]; rewrite (E_used s a E); unfold bit, Recon.bit.
  all: destruct (N.testbit r _); try destruct (Recon.used s _); cbn [fst]; try exact E; try apply IH.
  all: try (cbn [pget mget map_sto]; rewrite (E_par s a E), (E_mat s a E); apply IH).
  all: constructor; cbn [n l bs done used store Recon.n Recon.l Recon.bs Recon.done Recon.used Recon.dat Recon.par Recon.mat mput pput map_sto adat apar amat]; try apply E.
  all: intros i; unfold upd, Recon.upd; try rewrite (E_used s a E); try rewrite (E_par s a E); try rewrite (E_mat s a E); reflexivity.
Qed.

Lemma eqv_finish_row s a i : Eqv s a -> Eqv (fst (Recon.finish_row s i)) (finish_row map_sto a i).
Proof.
  intros E. unfold finish_row, Recon.finish_row. cbn [pget mget map_sto]. rewrite (E_par s a E), (E_mat s a E).
  set (r := Recon.getb (Recon.mat s i)).
  assert (H : forall L o ev,
     fold_left (fun o j => if bit r j then N.lxor o (dget map_sto (store a) (unk a j)) else o) L o =
     fst (fold_left (fun '(o, ev) j => if Recon.bit r j then (N.lxor o (Recon.getb (Recon.dat s (Recon.unk s j))), ev ++ [Recon.EDataGet (Recon.unk s j)]) else (o, ev)) L (o, ev))).
  { induction L as [|j L IH]; intros o ev; cbn [fold_left]; [reflexivity|]. unfold bit, Recon.bit.
    destruct (N.testbit r (N.of_nat j)); [cbn [dget map_sto]; rewrite (eqv_unk s a j E), (E_dat s a E)|]; apply IH. }
  specialize (H (seq 0 i) (Recon.getb (Recon.par s i)) [Recon.EParGet i; Recon.EMatGet i]).
  change (getb (Recon.par s i)) with (Recon.getb (Recon.par s i)). change (getb (Recon.mat s i)) with r.
  destruct (fold_left _ (seq 0 i) (Recon.getb (Recon.par s i), _)) as [out ev] eqn:Ef. cbn [fst] in *. rewrite H.
  constructor; cbn [n l bs done used store Recon.n Recon.l Recon.bs Recon.done Recon.used Recon.dat Recon.par Recon.mat dput map_sto adat apar amat]; try apply E.
  intros x. unfold upd, Recon.upd. rewrite (eqv_unk s a i E), (E_dat s a E). reflexivity.
Qed.

Lemma eqv_finish s a : Eqv s a -> Eqv (fst (Recon.finish s)) (finish map_sto a).
Proof.
  intros E. unfold finish, Recon.finish. rewrite (E_l s a E).
  assert (H : forall L s0 a0 ev, Eqv s0 a0 ->
    Eqv (fst (fold_left (fun '(s, ev) i => let '(s', e) := Recon.finish_row s i in (s', ev ++ e)) L (s0, ev))) (fold_left (finish_row map_sto) L a0)).
  { induction L as [|i L IH]; intros s0 a0 ev E0; cbn [fold_left]; [exact E0|].
    pose proof (eqv_finish_row s0 a0 i E0) as E1. destruct (Recon.finish_row s0 i) as [s1 e1]. cbn [fst] in E1. apply IH. exact E1. }
  apply H. exact E.
Qed.

Definition res_eq (r : Recon.result) (r' : result) : Prop :=
  match r, r' with Recon.NeedMore, NeedMore => True | Recon.TooManyMissing, TooManyMissing => True | Recon.Done a, Done b => a = b | _, _ => False end.

Lemma eqv_done_len s a : Eqv s a -> done_len a = Recon.done_len s.
Proof. intros E. unfold done_len, Recon.done_len. now rewrite (E_n s a E), (E_bs s a E). Qed.

Theorem eqv_handle_block P cap vbits s a idx b : Eqv s a ->
  let '(s', r, _) := Recon.handle_block P cap vbits s idx b in
  let '(a', r') := handle_block map_sto P cap vbits a idx b in
  Eqv s' a' /\ res_eq r r'.
Proof.
  intros E. unfold handle_block, Recon.handle_block.
  rewrite (eqv_complete s a E). destruct (Recon.is_complete s); [split; [exact E| cbn; symmetry; apply eqv_done_len; exact E]|].
  rewrite (E_n s a E), (E_l s a E), (eqv_missing s a E).
  destruct (Nat.leb (Recon.n s) idx && Nat.eqb (Recon.l s) 0 && _); [split; [exact E| exact I]|].
  set (l2 := if Nat.leb (Recon.n s) idx && Nat.eqb (Recon.l s) 0 then Recon.missing s else Recon.l s).
  set (s1 := Recon.mkst (Recon.n s) l2 (Recon.bs s) (Recon.done s) (Recon.used s) (Recon.dat s) (Recon.par s) (Recon.mat s)).
  set (a1 := mkg (Recon.n s) l2 (bs a) (done a) (used a) (store a)).
  assert (E1 : Eqv s1 a1) by (constructor; cbn [s1 a1 n l bs done used store Recon.n Recon.l Recon.bs Recon.done Recon.used Recon.dat Recon.par Recon.mat]; try apply E; reflexivity).
  change (Recon.l s1) with l2. change (l a1) with l2. destruct (Nat.eqb l2 0).
  - (* stage 1 *)
    rewrite (E_done s1 a1 E1). change (Recon.done s1 idx) with (Recon.done s idx). destruct (Recon.done s idx).
    + rewrite (eqv_complete s1 a1 E1). destruct (Recon.is_complete s1); (split; [exact E1|]); [cbn; symmetry; apply eqv_done_len; exact E1| exact I].
    + match goal with |- context [Recon.is_complete ?x] => set (s2 := x) end.
      match goal with |- context [is_complete ?x] => set (a2 := x) end.
      assert (E2 : Eqv s2 a2).
      { constructor; unfold s2, a2, s1, a1; cbn [n l bs done used store Recon.n Recon.l Recon.bs Recon.done Recon.used Recon.dat Recon.par Recon.mat dput map_sto adat apar amat]; try apply E; try reflexivity.
        - intros i. unfold upd, Recon.upd. now rewrite (E_done s a E).
        - intros i. unfold upd, Recon.upd. now rewrite (E_dat s a E). }
      rewrite (eqv_complete s2 a2 E2). destruct (Recon.is_complete s2); (split; [exact E2|]); [cbn; symmetry; apply eqv_done_len; exact E2| exact I].
  - (* stage 2 *)
    unfold Recon.handle_parity. change (Recon.l s1) with l2. change (l a1) with l2. rewrite (eqv_strip s1 a1 _ _ E1), (eqv_project s1 a1 _ E1).
    destruct (Recon.strip s1 (P idx) b) as [d ev0]. cbn [fst].
    pose proof (eqv_elim s1 a1 E1 (l2 - 1)%nat (Recon.project s1 (P idx)) d ev0) as E2.
    destruct (Recon.elim s1 (l2 - 1) (Recon.project s1 (P idx)) d ev0) as [s2 ev2]. cbn [fst] in E2.
    rewrite (eqv_complete s2 _ E2). destruct (Recon.is_complete s2).
    + pose proof (eqv_finish s2 _ E2) as E3. destruct (Recon.finish s2) as [s3 ev3]. cbn [fst] in E3. cbv beta iota zeta. split; [exact E3|]. cbn. symmetry. apply eqv_done_len; exact E3.
    + cbv beta iota zeta. split; [exact E2| exact I].
Qed.
Print Assumptions eqv_handle_block.

(* ---------- whole runs, three machines in lockstep ---------- *)
Fixpoint grun {St} (I : sto St) (P : nat -> N) (cap vbits : nat) (s : gst St) (bl : list (nat * N)) : gst St * list result :=
  match bl with
  | [] => (s, [])
  | (i, b) :: tl => let '(s1, r) := handle_block I P cap vbits s i b in let '(s2, rs) := grun I P cap vbits s1 tl in (s2, r :: rs)
  end.

Lemma lockstep g P cap vbits : wfgeo g -> N.of_nat cap <= capL g ->
  forall bl s a c, Eqv s a -> Pair g a c -> Next g a -> Forall (fun p => snd p < B g) bl ->
  let '(s', rs, _) := Recon.run P cap vbits s bl in
  let '(a', rsa) := grun map_sto P cap vbits a bl in
  let '(c', rsc) := grun (flash_sto g) P cap vbits c bl in
  Eqv s' a' /\ Pair g a' c' /\ rsa = rsc /\ Forall2 res_eq rs rsa.
Proof.
  intros W Hcap. induction bl as [|[i b] bl IH]; intros s a c E PR NX HB; cbn [Recon.run grun].
  - split; [exact E|]. split; [exact PR|]. split; [reflexivity| constructor].
  - inversion HB as [|? ? Hb HB']; subst. cbn [snd] in Hb.
    pose proof (eqv_handle_block P cap vbits s a i b E) as H1.
    pose proof (handle_block_sim g P cap vbits a c i b W PR NX Hcap Hb) as H2. cbv zeta in H2.
    destruct (Recon.handle_block P cap vbits s i b) as [[s1 r1] e1].
    destruct (handle_block map_sto P cap vbits a i b) as [a1 ra1]. destruct (handle_block (flash_sto g) P cap vbits c i b) as [c1 rc1].
    cbn [fst snd] in H2. destruct H1 as [E1 R1]. destruct H2 as (R2 & P1 & N1 & _).
    specialize (IH s1 a1 c1 E1 P1 N1 HB').
    destruct (Recon.run P cap vbits s1 bl) as [[s2 rs] es]. destruct (grun map_sto P cap vbits a1 bl) as [a2 rsa]. destruct (grun (flash_sto g) P cap vbits c1 bl) as [c2 rsc].
    destruct IH as (E2 & P2 & R3 & R4). split; [exact E2|]. split; [exact P2|]. split; [congruence|]. constructor; assumption.
Qed.


(* the same induction, keeping the invariant [Next] of the final state (needed by the recovery round trip) *)
Lemma lockstep_next g P cap vbits : wfgeo g -> N.of_nat cap <= capL g ->
  forall bl a c, Pair g a c -> Next g a -> Forall (fun p => snd p < B g) bl ->
  let '(a', rsa) := grun map_sto P cap vbits a bl in
  let '(c', rsc) := grun (flash_sto g) P cap vbits c bl in
  Pair g a' c' /\ Next g a' /\ rsa = rsc.
Proof.
  intros W Hcap. induction bl as [|[i b] bl IH]; intros a c PR NX HB; cbn [grun].
  - split; [exact PR|]. split; [exact NX| reflexivity].
  - inversion HB as [|? ? Hb HB']; subst. cbn [snd] in Hb.
    pose proof (handle_block_sim g P cap vbits a c i b W PR NX Hcap Hb) as H2. cbv zeta in H2.
    destruct (handle_block map_sto P cap vbits a i b) as [a1 ra1]. destruct (handle_block (flash_sto g) P cap vbits c i b) as [c1 rc1].
    cbn [fst snd] in H2. destruct H2 as (R2 & P1 & N1 & _).
    specialize (IH a1 c1 P1 N1 HB').
    destruct (grun map_sto P cap vbits a1 bl) as [a2 rsa]. destruct (grun (flash_sto g) P cap vbits c1 bl) as [c2 rsc].
    destruct IH as (P2 & N2 & R3). split; [exact P2|]. split; [exact N2| congruence].
Qed.

(* blocks computed from bounded originals are bounded *)
Lemma dot_bound k r X Bd : (forall i, (i < k)%nat -> X i < 2 ^ Bd) -> Recon.dot k r X < 2 ^ Bd.
Proof.
  induction k as [|k IH]; intros H; cbn [Recon.dot]; [apply N.neq_0_lt_0, N.pow_nonzero; discriminate|].
  apply lxor_bound; [destruct (Recon.bit r k); [apply H; lia| apply N.neq_0_lt_0, N.pow_nonzero; discriminate]| apply IH; intros; apply H; lia].
Qed.

(* the initial states are related when both slots are erased *)
Definition empty_amap : amap := {| adat := fun _ => None; apar := fun _ => None; amat := fun _ => None |}.
Lemma rel_init g m0 : wfgeo g ->
  (forall x, (fw g + HEADER_SIZE <= x < fw g + ssize g \/ pa g + HEADER_SIZE <= x < pa g + ssize g) -> m0 x = 255) -> Rel g empty_amap m0.
Proof.
  intros W He. constructor; cbn [empty_amap adat apar amat]; try discriminate.
  - intros i Hi. destruct (dstore_confined g (N.of_nat i) W Hi) as (D1 & D2 & D3 & D4). unfold dview.
    rewrite He by (unfold HEADER_SIZE in *; lia). reflexivity.
  - intros i Hi _. destruct (dstore_confined g (N.of_nat i) W Hi) as (D1 & D2 & D3 & D4). unfold HEADER_SIZE in *. split.
    + intros x Hx. apply He. lia.
    + apply He. lia.
  - intros k Hk. destruct (addr_facts g (N.of_nat k) W Hk) as (A1 & A2 & A3 & A4). unfold pview, mview, mused, diag.
    assert (N.of_nat k / 8 < rowlen (N.of_nat k)) by (unfold rowlen; lia).
    rewrite He by (unfold pbase, HEADER_SIZE in *; lia). split; reflexivity.
  - intros k Hk _. destruct (addr_facts g (N.of_nat k) W Hk) as (A1 & A2 & A3 & A4). unfold pbase, HEADER_SIZE in *.
    split; intros x Hx; apply He; lia.
  - intros k. split; reflexivity.
Qed.


(* the freshly started session: paired with the empty abstract maps, invariant holds *)
Lemma init_pair_next g m0 : wfgeo g ->
  (forall x, (fw g + HEADER_SIZE <= x < fw g + ssize g \/ pa g + HEADER_SIZE <= x < pa g + ssize g) -> m0 x = 255) ->
  let nn := N.to_nat (nseg g) in
  let a0 := mkg nn 0 (sz g) (fun _ : nat => false) (fun _ : nat => false) empty_amap in
  let c0 := mkg nn 0 (sz g) (fun _ : nat => false) (fun _ : nat => false) m0 in
  Pair g a0 c0 /\ Next g a0.
Proof.
  intros W He nn a0 c0. split; [constructor; try reflexivity; apply rel_init; assumption|].
  assert (Hnn : N.of_nat nn = nseg g) by (unfold nn; lia).
  right. split; [|left; split; reflexivity]. constructor; cbn [a0 n l bs done used store empty_amap adat apar amat].
  - exact Hnn.
  - apply N.le_0_l.
  - intros i _ Q. discriminate Q.
  - intros i Hi _. split; [intros Q; contradiction| intros (j & Hj & _); lia].
  - intros k Hk. lia.
  - reflexivity.
  - intros k r Q. discriminate Q.
  - intros k Q. discriminate Q.
Qed.

(* ---------- C01 core at byte level ---------- *)
(* only the parts of the two slots behind the 1 KiB header area need to be erased (start_update has programmed the headers) *)
Theorem flash_reconstruction_sound_hdr g (P : nat -> N) (vbits : nat) (X : nat -> N) (bl : list (nat * N)) m0 :
  wfgeo g ->
  (forall x, (fw g + HEADER_SIZE <= x < fw g + ssize g \/ pa g + HEADER_SIZE <= x < pa g + ssize g) -> m0 x = 255) ->
  (forall i, (N.of_nat i < nseg g) -> X i < B g) ->
  (forall m, (N.of_nat m < nseg g) -> P m = N.shiftl 1 (N.of_nat m)) ->
  Forall (Recon.consistent P (N.to_nat (nseg g)) X) bl ->
  let nn := N.to_nat (nseg g) in let cap := N.to_nat (capL g) in
  let c0 := mkg nn 0 (sz g) (fun _ => false) (fun _ => false) m0 in
  let '(c', rsc) := grun (flash_sto g) P cap vbits c0 bl in
  (exists len, In (Done len) rsc) ->
  forall i, (i < nn)%nat ->
    store c' (saddr g (N.of_nat i)) = MARK /\ c_dget g (store c') (N.of_nat i) = X i.
Proof.
  intros W He HX HP HC nn cap c0.
  set (a0 := mkg nn 0 (sz g) (fun _ : nat => false) (fun _ : nat => false) empty_amap).
  set (s0 := Recon.init nn (sz g)).
  assert (E0 : Eqv s0 a0) by (constructor; reflexivity).
  assert (P0 : Pair g a0 c0) by (constructor; try reflexivity; apply rel_init; assumption).
  assert (Hnn : N.of_nat nn = nseg g) by (unfold nn; lia).
  assert (N0 : Next g a0).
  { right. split; [|left; split; reflexivity]. constructor; cbn [a0 n l bs done used store empty_amap adat apar amat].
    - exact Hnn.
    - apply N.le_0_l.
    - intros i _ Q. discriminate Q.
    - intros i Hi _. split; [intros Q; contradiction| intros (j & Hj & _); lia].
    - intros k Hk. lia.
    - reflexivity.
    - intros k r Q. discriminate Q.
    - intros k Q. discriminate Q. }
  assert (HB : Forall (fun p => snd p < B g) bl).
  { rewrite Forall_forall in *. intros p Hp. rewrite (HC p Hp). unfold Recon.enc, B. apply dot_bound. intros i Hi. apply HX. lia. }
  pose proof (lockstep g P cap vbits W ltac:(unfold cap; lia) bl s0 a0 c0 E0 P0 N0 HB) as LS.
  pose proof (ReconProof.run_sound P X cap vbits bl s0 ltac:(intros m Hm; apply HP; cbn in Hm; lia) (ReconProof.init_inv X nn (sz g)) HC) as RS.
  destruct (Recon.run P cap vbits s0 bl) as [[s' rs] evs]. destruct (grun map_sto P cap vbits a0 bl) as [a' rsa]. destruct (grun (flash_sto g) P cap vbits c0 bl) as [c' rsc].
  destruct LS as (E' & P' & Rs & R4). destruct RS as (_ & Hn' & _ & _ & Hfull).
  intros [len Hin] i Hi.
  (* a Done on the flash side is a Done of the abstract run *)
  assert (HD : exists len', In (Recon.Done len') rs).
  { subst rsc. clear - R4 Hin. induction R4 as [|r r' rs rsa Hr R4 IH]; [contradiction|]. destruct Hin as [->|Hin].
    - destruct r; cbn in Hr; try contradiction. exists len0. left; reflexivity.
    - destruct (IH Hin) as [l' Hl']. exists l'. right; exact Hl'. }
  destruct HD as [len' Hin']. destruct (Hfull len' Hin') as [_ Full].
  assert (Hi' : (i < Recon.n s')%nat) by (rewrite Hn'; exact Hi).
  specialize (Full i Hi').
  assert (HiN : N.of_nat i < nseg g) by lia.
  pose proof (R_d g _ _ (P_rel g a' c' P') i HiN) as V. rewrite (E_dat s' a' E'), Full in V. unfold dview in V.
  destruct (N.eqb_spec (store c' (saddr g (N.of_nat i))) MARK) as [EM|]; [|discriminate]. inversion V. split; [exact EM| reflexivity].
Qed.

Theorem flash_reconstruction_sound g (P : nat -> N) (vbits : nat) (X : nat -> N) (bl : list (nat * N)) m0 :
  wfgeo g ->
  (forall x, (fw g <= x < fw g + ssize g \/ pa g <= x < pa g + ssize g) -> m0 x = 255) ->
  (forall i, (N.of_nat i < nseg g) -> X i < B g) ->
  (forall m, (N.of_nat m < nseg g) -> P m = N.shiftl 1 (N.of_nat m)) ->
  Forall (Recon.consistent P (N.to_nat (nseg g)) X) bl ->
  let nn := N.to_nat (nseg g) in let cap := N.to_nat (capL g) in
  let c0 := mkg nn 0 (sz g) (fun _ => false) (fun _ => false) m0 in
  let '(c', rsc) := grun (flash_sto g) P cap vbits c0 bl in
  (exists len, In (Done len) rsc) ->
  forall i, (i < nn)%nat ->
    store c' (saddr g (N.of_nat i)) = MARK /\ c_dget g (store c') (N.of_nat i) = X i.
Proof.
  intros W He. apply flash_reconstruction_sound_hdr; [exact W|]. intros x Hx. apply He. unfold HEADER_SIZE in Hx. lia.
Qed.
Print Assumptions flash_reconstruction_sound.

