From Coq Require Import List NArith ZArith Bool Lia ZifyBool ZifyN.
Ltac Zify.zify_post_hook ::= Z.div_mod_to_equations.
Require Export Consts.
Import ListNotations.
Open Scope N_scope.

(* ---- constants: gen/Consts.v is regenerated from the compiled crates on every check ---- *)

Definition SEQ_INVALID := 4294967295.     (* u32::MAX, private const SequenceNumber::INVALID: covered by the layout stream *)

Definition ext_codes := [EXT_IN_PROGRESS; EXT_ABORTED; EXT_COMPLETE].

Definition int_codes := [INT_IN_PROGRESS; INT_COMPLETE].

Definition boot_codes := [BOOT_UNTESTED; BOOT_SUCCESSFUL; BOOT_UNSUCCESSFUL].

(* ---- little-endian words ---- *)

Definition word_of (b0 b1 b2 b3 : N) : N := b0 + 256 * b1 + 65536 * b2 + 16777216 * b3.

Definition bytes_of (v : N) : list N := [v mod 256; (v / 256) mod 256; (v / 65536) mod 256; (v / 16777216) mod 256].

(* ---- header ---- *)

Record hdr := { kind : N; seq : N; size : N; count : N; ext : N; int_ : N; boot : N }.

Definition legal (h : hdr) : bool :=
  ((kind h =? KIND_FIRMWARE) || (kind h =? KIND_PARITY)) && negb (seq h =? SEQ_INVALID) && (seq h <? 4294967296)
  && (1 <=? size h) && (size h <=? MAX_SEGMENT_SIZE) && (1 <=? count h) && (count h <=? MAX_SEGMENTS)
  && existsb (N.eqb (ext h)) ext_codes && existsb (N.eqb (int_ h)) int_codes && existsb (N.eqb (boot h)) boot_codes.

Definition encode (h : hdr) : list N :=
  bytes_of (kind h) ++ bytes_of (seq h) ++ bytes_of (size h) ++ bytes_of (count h) ++ bytes_of (ext h) ++ bytes_of (int_ h) ++ bytes_of (boot h).

Definition parse (bs : list N) : option hdr :=
  match bs with
  | [k0;k1;k2;k3; s0;s1;s2;s3; z0;z1;z2;z3; c0;c1;c2;c3; e0;e1;e2;e3; i0;i1;i2;i3; b0;b1;b2;b3] =>
      let h := {| kind := word_of k0 k1 k2 k3; seq := word_of s0 s1 s2 s3; size := word_of z0 z1 z2 z3; count := word_of c0 c1 c2 c3;
                  ext := word_of e0 e1 e2 e3; int_ := word_of i0 i1 i2 i3; boot := word_of b0 b1 b2 b3 |} in
      if legal h then Some h else None
  | _ => None
  end.

Definition bytes_ok (bs : list N) : Prop := Forall (fun b => b < 256) bs.

(* a 28-byte string parses iff the decoded fields are all legal; parsing then re-encoding reproduces the bytes *)

(* ---- tear safety: generic lemma + instance by computation ---- *)

Definition subset (a b : N) : bool := N.land a b =? a.            (* every 1 of a is a 1 of b *)

Definition tear_safe_b (codes : list N) : bool :=
  forallb (fun old => forallb (fun new => forallb (fun c =>
     if subset c old && subset (N.land old new) c then (c =? old) || (c =? new) else true) codes) codes) codes.

Definition clears_only (old new : N) : bool := N.land old new =? new.

(* ---- combined status classification (layout.rs / protocol.rs total_status) ---- *)

Inductive tstatus := BlankSlot | AppWriteInProgress | AppWriteAborted | BootloadWriteInProgress
                   | FirstBootPendingAck | ConfirmedImage | RejectedImage | InvalidNeedsErase.

Definition total_status (h : hdr) : tstatus :=
  let v := negb (seq h =? SEQ_INVALID) in
  let e := ext h in let i := int_ h in let b := boot h in
  if (e =? EXT_IN_PROGRESS) && (i =? INT_IN_PROGRESS) && (b =? BOOT_UNTESTED) then (if v then AppWriteInProgress else BlankSlot)
  else if negb v then InvalidNeedsErase
  else if (e =? EXT_ABORTED) && (i =? INT_IN_PROGRESS) && (b =? BOOT_UNTESTED) then AppWriteAborted
  else if (e =? EXT_COMPLETE) && (i =? INT_IN_PROGRESS) && (b =? BOOT_UNTESTED) then BootloadWriteInProgress
  else if (e =? EXT_COMPLETE) && (i =? INT_COMPLETE) && (b =? BOOT_UNTESTED) then FirstBootPendingAck
  else if (e =? EXT_COMPLETE) && (i =? INT_COMPLETE) && (b =? BOOT_SUCCESSFUL) then ConfirmedImage
  else if (e =? EXT_COMPLETE) && (i =? INT_COMPLETE) && (b =? BOOT_UNSUCCESSFUL) then RejectedImage
  else InvalidNeedsErase.

(* ---- status marks: one 4-byte program (bitwise AND on NOR) at the field's offset ---- *)

Inductive mark := MAbort | MComplete | MInt | MBootOk | MBootBad.

Definition mark_field (m : mark) : N * N :=       (* (offset, code) *)
  match m with
  | MAbort => (WRITE_EXT_STATUS_OFFSET, EXT_ABORTED) | MComplete => (WRITE_EXT_STATUS_OFFSET, EXT_COMPLETE)
  | MInt => (WRITE_INT_STATUS_OFFSET, INT_COMPLETE)
  | MBootOk => (BOOT_OUTCOME_OFFSET, BOOT_SUCCESSFUL) | MBootBad => (BOOT_OUTCOME_OFFSET, BOOT_UNSUCCESSFUL)
  end.
(* the 28 header bytes after programming [code] over the field at [off] *)

Definition apply_mark (m : mark) (bs : list N) : list N :=
  let '(off, code) := mark_field m in
  let cb := bytes_of code in
  map (fun '(i, b) => let k := N.of_nat i in
         if (off <=? k) && (k <? off + 4) then N.land b (nth (N.to_nat (k - off)) cb 255) else b)
      (combine (List.seq 0 (length bs)) bs).

(* ---- a byte string parses iff it is 28 bytes whose seven little-endian words are legal ---- *)

Definition fields_of (bs : list N) : option hdr :=
  match bs with
  | [k0;k1;k2;k3; s0;s1;s2;s3; z0;z1;z2;z3; c0;c1;c2;c3; e0;e1;e2;e3; i0;i1;i2;i3; b0;b1;b2;b3] =>
      Some {| kind := word_of k0 k1 k2 k3; seq := word_of s0 s1 s2 s3; size := word_of z0 z1 z2 z3; count := word_of c0 c1 c2 c3;
              ext := word_of e0 e1 e2 e3; int_ := word_of i0 i1 i2 i3; boot := word_of b0 b1 b2 b3 |}
  | _ => None
  end.

(* ---- the classification, stated as a table over the legal codes, checked by computation ---- *)

Definition spec_status (valid : bool) (e i b : N) : tstatus :=
  if negb valid then (if (e =? EXT_IN_PROGRESS) && (i =? INT_IN_PROGRESS) && (b =? BOOT_UNTESTED) then BlankSlot else InvalidNeedsErase)
  else
  let tbl := [ (EXT_IN_PROGRESS, INT_IN_PROGRESS, BOOT_UNTESTED, AppWriteInProgress);
               (EXT_ABORTED, INT_IN_PROGRESS, BOOT_UNTESTED, AppWriteAborted);
               (EXT_COMPLETE, INT_IN_PROGRESS, BOOT_UNTESTED, BootloadWriteInProgress);
               (EXT_COMPLETE, INT_COMPLETE, BOOT_UNTESTED, FirstBootPendingAck);
               (EXT_COMPLETE, INT_COMPLETE, BOOT_SUCCESSFUL, ConfirmedImage);
               (EXT_COMPLETE, INT_COMPLETE, BOOT_UNSUCCESSFUL, RejectedImage) ] in
  match find (fun '(e', i', b', _) => (e =? e') && (i =? i') && (b =? b')) tbl with
  | Some (_, _, _, t) => t | None => InvalidNeedsErase end.

Definition tstatus_eqb (a b : tstatus) : bool :=
  match a, b with
  | BlankSlot, BlankSlot | AppWriteInProgress, AppWriteInProgress | AppWriteAborted, AppWriteAborted
  | BootloadWriteInProgress, BootloadWriteInProgress | FirstBootPendingAck, FirstBootPendingAck
  | ConfirmedImage, ConfirmedImage | RejectedImage, RejectedImage | InvalidNeedsErase, InvalidNeedsErase => true
  | _, _ => false end.

Definition status_table_ok : bool :=
  forallb (fun e => forallb (fun i => forallb (fun b => forallb (fun s =>
     tstatus_eqb (total_status {| kind := 0; seq := s; size := 1; count := 1; ext := e; int_ := i; boot := b |})
                 (spec_status (negb (s =? SEQ_INVALID)) e i b)) [0; 1; 4294967294; SEQ_INVALID]) boot_codes) int_codes) ext_codes.

(* ---- lemmas pinned by props/C11.v ---- *)
