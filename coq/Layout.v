From Coq Require Import List NArith ZArith Bool Lia ZifyBool ZifyN.
Ltac Zify.zify_post_hook ::= Z.div_mod_to_equations.
Import ListNotations.
Open Scope N_scope.

(* ---- constants: in the real development this block is gen/Consts.v, regenerated from the compiled crate ---- *)
Definition KIND_FIRMWARE := 0.   Definition KIND_PARITY := 1.
Definition SEQ_INVALID := 4294967295.
Definition EXT_IN_PROGRESS := 4294967295. Definition EXT_ABORTED := 2863311530. Definition EXT_COMPLETE := 1145324612.
Definition INT_IN_PROGRESS := 4294967295. Definition INT_COMPLETE := 286331153.
Definition BOOT_UNTESTED := 4294967295. Definition BOOT_SUCCESSFUL := 2882343476. Definition BOOT_UNSUCCESSFUL := 3455023248.
Definition MAX_SEGMENT_SIZE := 256. Definition MAX_SEGMENTS := 16384.
Definition ext_codes := [EXT_IN_PROGRESS; EXT_ABORTED; EXT_COMPLETE].
Definition int_codes := [INT_IN_PROGRESS; INT_COMPLETE].
Definition boot_codes := [BOOT_UNTESTED; BOOT_SUCCESSFUL; BOOT_UNSUCCESSFUL].

(* ---- little-endian words ---- *)
Definition word_of (b0 b1 b2 b3 : N) : N := b0 + 256 * b1 + 65536 * b2 + 16777216 * b3.
Definition bytes_of (v : N) : list N := [v mod 256; (v / 256) mod 256; (v / 65536) mod 256; (v / 16777216) mod 256].

Lemma bytes_word b0 b1 b2 b3 : b0 < 256 -> b1 < 256 -> b2 < 256 -> b3 < 256 -> bytes_of (word_of b0 b1 b2 b3) = [b0; b1; b2; b3].
Proof. intros. unfold bytes_of, word_of. repeat f_equal; lia. Qed.

Lemma word_bytes v : v < 4294967296 ->
  word_of (v mod 256) ((v / 256) mod 256) ((v / 65536) mod 256) ((v / 16777216) mod 256) = v.
Proof. intros H. unfold word_of. lia. Qed.

(* ---- header ---- *)
Record hdr := { kind : N; seq : N; size : N; count : N; ext : N; int_ : N; boot : N }.
Definition legal (h : hdr) : bool :=
  ((kind h =? KIND_FIRMWARE) || (kind h =? KIND_PARITY)) && negb (seq h =? SEQ_INVALID) && (seq h <? 4294967296)
  && (1 <=? size h) && (size h <=? MAX_SEGMENT_SIZE) && (1 <=? count h) && (count h <=? MAX_SEGMENTS)
  && existsb (N.eqb (ext h)) ext_codes && existsb (N.eqb (int_ h)) int_codes && existsb (N.eqb (boot h)) boot_codes.

Definition encode (h : hdr) : list N :=
  bytes_of (kind h) ++ bytes_of (seq h) ++ bytes_of (size h) ++ bytes_of (count h) ++ bytes_of (ext h) ++ bytes_of (int_ h) ++ bytes_of (boot h).

Definition parse (bs : list N) : option hdr :=
  match bs with
  | [k0;k1;k2;k3; s0;s1;s2;s3; z0;z1;z2;z3; c0;c1;c2;c3; e0;e1;e2;e3; i0;i1;i2;i3; b0;b1;b2;b3] =>
      let h := {| kind := word_of k0 k1 k2 k3; seq := word_of s0 s1 s2 s3; size := word_of z0 z1 z2 z3; count := word_of c0 c1 c2 c3;
                  ext := word_of e0 e1 e2 e3; int_ := word_of i0 i1 i2 i3; boot := word_of b0 b1 b2 b3 |} in
      if legal h then Some h else None
  | _ => None
  end.

Definition bytes_ok (bs : list N) : Prop := Forall (fun b => b < 256) bs.

(* a 28-byte string parses iff the decoded fields are all legal; parsing then re-encoding reproduces the bytes *)
Theorem parse_encode bs h : bytes_ok bs -> parse bs = Some h -> encode h = bs /\ legal h = true.
Proof.
  intros Hok Hp. unfold parse in Hp.
  do 28 (destruct bs as [|? bs]; [discriminate|]). destruct bs; [|discriminate].
  match type of Hp with (if legal ?hh then _ else _) = _ => destruct (legal hh) eqn:L; [|discriminate] end.
  inversion Hp; subst h. split; [|exact L]. unfold encode; cbn [kind seq size count ext int_ boot].
  repeat match goal with H : bytes_ok (_ :: _) |- _ => inversion H; clear H; subst end.
  repeat match goal with H : Forall _ (_ :: _) |- _ => inversion H; clear H; subst end.
  rewrite !bytes_word by assumption. reflexivity.
Qed.

Lemma existsb_code_lt v codes : Forall (fun c => c < 4294967296) codes -> existsb (N.eqb v) codes = true -> v < 4294967296.
Proof. intros HF H. apply existsb_exists in H. destruct H as (c & Hc & E). apply N.eqb_eq in E. subst. rewrite Forall_forall in HF. apply HF; exact Hc. Qed.

Theorem encode_parse h : legal h = true -> parse (encode h) = Some h.
Proof.
  intros L. pose proof L as L0. unfold legal in L.
  repeat (apply andb_prop in L; destruct L as [L ?]).
  assert (Hk : kind h < 4294967296) by (apply orb_prop in L; destruct L as [E|E]; apply N.eqb_eq in E; rewrite E; reflexivity).
  assert (Hs : seq h < 4294967296) by (apply N.ltb_lt; assumption).
  assert (Hz : size h < 4294967296) by (assert (size h <= MAX_SEGMENT_SIZE) by (apply N.leb_le; assumption); unfold MAX_SEGMENT_SIZE in *; lia).
  assert (Hc : count h < 4294967296) by (assert (count h <= MAX_SEGMENTS) by (apply N.leb_le; assumption); unfold MAX_SEGMENTS in *; lia).
  assert (He : ext h < 4294967296) by (eapply existsb_code_lt; [|eassumption]; repeat constructor).
  assert (Hi : int_ h < 4294967296) by (eapply existsb_code_lt; [|eassumption]; repeat constructor).
  assert (Hb : boot h < 4294967296) by (eapply existsb_code_lt; [|eassumption]; repeat constructor).
  unfold encode, bytes_of. cbn [app parse]. rewrite !word_bytes by assumption.
  destruct h as [k s z c e i b]; cbn [kind seq size count ext int_ boot] in *. now rewrite L0.
Qed.

(* ---- tear safety: generic lemma + instance by computation ---- *)
Definition subset (a b : N) : bool := N.land a b =? a.            (* every 1 of a is a 1 of b *)
Definition tear_safe_b (codes : list N) : bool :=
  forallb (fun old => forallb (fun new => forallb (fun c =>
     if subset c old && subset (N.land old new) c then (c =? old) || (c =? new) else true) codes) codes) codes.

Theorem tear_safe codes : tear_safe_b codes = true ->
  forall old new mid, In old codes -> In new codes ->
    N.land mid old = mid -> N.land (N.land old new) mid = N.land old new ->     (* old&new ⊆ mid ⊆ old *)
    In mid codes -> mid = old \/ mid = new.
Proof.
  intros H old new mid Ho Hn H1 H2 Hm. unfold tear_safe_b in H. rewrite forallb_forall in H. specialize (H old Ho).
  rewrite forallb_forall in H. specialize (H new Hn). rewrite forallb_forall in H. specialize (H mid Hm).
  unfold subset in H. rewrite H1, H2, !N.eqb_refl in H. cbn [andb] in H.
  apply orb_prop in H. destruct H as [E|E]; apply N.eqb_eq in E; auto.
Qed.

Example ext_tear_safe : tear_safe_b ext_codes = true.   Proof. vm_compute. reflexivity. Qed.
Example int_tear_safe : tear_safe_b int_codes = true.   Proof. vm_compute. reflexivity. Qed.
Example boot_tear_safe : tear_safe_b boot_codes = true. Proof. vm_compute. reflexivity. Qed.

(* transitions the API performs only clear bits *)
Definition clears_only (old new : N) : bool := N.land old new =? new.
Example transitions_clear_only :
  forallb (fun '(o, n) => clears_only o n)
    [(EXT_IN_PROGRESS, EXT_ABORTED); (EXT_IN_PROGRESS, EXT_COMPLETE); (INT_IN_PROGRESS, INT_COMPLETE);
     (BOOT_UNTESTED, BOOT_SUCCESSFUL); (BOOT_UNTESTED, BOOT_UNSUCCESSFUL)] = true.
Proof. vm_compute. reflexivity. Qed.

(* values deployed bootloaders read (pinned from the property text) *)
Example codes_pinned :
  (EXT_COMPLETE, EXT_ABORTED, INT_COMPLETE, BOOT_SUCCESSFUL, BOOT_UNSUCCESSFUL, KIND_FIRMWARE, KIND_PARITY)
  = (0x44444444, 0xAAAAAAAA, 0x11111111, 0xABCD1234, 0xCDEF7890, 0, 1).
Proof. reflexivity. Qed.
Print Assumptions encode_parse.
