From Coq Require Import List NArith Arith Bool Lia.
Require Import Slots SlotsProof RingA Exact RingB.
Import ListNotations.

(* bl_boot_status: the first firmware slot (by index) whose status is "copy incomplete" or "load unacknowledged" *)
Inductive blstatus := Idle | IncompleteInternal (i : nat) | FailedLoad (i : nat).
Definition awaiting (h : hdr) : option bool :=      (* Some false = copy incomplete, Some true = awaiting ack *)
  match hkind h with
  | Parity => None
  | Firmware => match total_status h with BootloadWriteInProgress => Some false | FirstBootPendingAck => Some true | _ => None end
  end.
Definition bl_boot_status (sl : slots) : blstatus :=
  match find (fun p => match awaiting (snd p) with Some _ => true | None => false end) (indexed sl) with
  | Some (i, h) => match awaiting h with Some false => IncompleteInternal i | Some true => FailedLoad i | None => Idle end
  | None => Idle
  end.

(* proviso of C12: at most one image awaits copy or acknowledgement *)
Definition at_most_one_awaiting (sl : slots) : Prop :=
  forall i j hi hj, In (i, hi) (indexed sl) -> In (j, hj) (indexed sl) -> awaiting hi <> None -> awaiting hj <> None -> i = j.

Theorem bl_boot_status_spec sl : at_most_one_awaiting sl ->
  (forall i, bl_boot_status sl = IncompleteInternal i <-> exists h, In (i, h) (indexed sl) /\ awaiting h = Some false) /\
  (forall i, bl_boot_status sl = FailedLoad i <-> exists h, In (i, h) (indexed sl) /\ awaiting h = Some true) /\
  (bl_boot_status sl = Idle <-> forall i h, In (i, h) (indexed sl) -> awaiting h = None).
Proof.
  intros U. unfold bl_boot_status.
  destruct (find _ (indexed sl)) as [[i0 h0]|] eqn:F.
  - apply find_some in F. destruct F as [Hin Hb]. cbn [snd] in Hb. destruct (awaiting h0) as [b|] eqn:A; [|discriminate].
    assert (Uq : forall i h, In (i, h) (indexed sl) -> awaiting h <> None -> i = i0 /\ h = h0).
    { intros i h Hi Ha. assert (i = i0) by (apply (U i i0 h h0 Hi Hin Ha); congruence). subst i. split; [reflexivity|].
      apply indexed_iff in Hi. apply indexed_iff in Hin. congruence. }
    destruct b; (split; [|split]).
    all: try (intros i; split; [intros Q; try discriminate Q; inversion Q; subst; exists h0; split; assumption
                               | intros (h & Hi & Ha); destruct (Uq i h Hi ltac:(congruence)) as [-> ->]; congruence]).
    all: try (split; [intros Q; discriminate Q| intros Q; rewrite (Q i0 h0 Hin) in A; discriminate A]).
  - split; [|split].
    + intros i. split; [discriminate|]. intros (h & Hi & Ha). pose proof (find_none _ _ F (i, h) Hi) as Q. cbn [snd] in Q. rewrite Ha in Q. discriminate.
    + intros i. split; [discriminate|]. intros (h & Hi & Ha). pose proof (find_none _ _ F (i, h) Hi) as Q. cbn [snd] in Q. rewrite Ha in Q. discriminate.
    + split; [|reflexivity]. intros _ i h Hi. pose proof (find_none _ _ F (i, h) Hi) as Q. cbn [snd] in Q. destruct (awaiting h); [discriminate| reflexivity].
Qed.

(* fallback_firmware_slot: the confirmed image with the highest sequence number *)
Theorem fallback_spec sl f : fallback sl = Some f ->
  exists h, In (f, h) (indexed sl) /\ is_confirmed h = true /\
    forall j hj, In (j, hj) (indexed sl) -> is_confirmed hj = true -> (hseq hj <= hseq h)%N.
Proof.
  unfold fallback.
  assert (G : forall L acc,
    (forall i s, acc = Some (i, s) -> exists h, In (i, h) (indexed sl) /\ is_confirmed h = true /\ hseq h = s) ->
    (forall x, In x L -> In x (indexed sl)) ->
    forall i s, fold_left (fun acc '(i, h) => if is_confirmed h then match acc with None => Some (i, hseq h) | Some (_, s0) => if (s0 <? hseq h)%N then Some (i, hseq h) else acc end else acc) L acc = Some (i, s) ->
    (exists h, In (i, h) (indexed sl) /\ is_confirmed h = true /\ hseq h = s) /\
    (forall j hj, In (j, hj) L -> is_confirmed hj = true -> (hseq hj <= s)%N) /\
    (forall j sj, acc = Some (j, sj) -> (sj <= s)%N)).
  { induction L as [|[j hj] L IH]; intros acc Hacc HL i s; cbn [fold_left].
    - intros ->. split; [apply (Hacc i s eq_refl)|]. split; [intros ? ? []| intros j sj Q; inversion Q; lia].
    - intros H. 
      set (acc' := if is_confirmed hj then match acc with None => Some (j, hseq hj) | Some (_, s0) => if (s0 <? hseq hj)%N then Some (j, hseq hj) else acc end else acc) in H.
      assert (Hacc' : forall i s, acc' = Some (i, s) -> exists h, In (i, h) (indexed sl) /\ is_confirmed h = true /\ hseq h = s).
      { intros i' s' Q. subst acc'. destruct (is_confirmed hj) eqn:C; [|apply Hacc; exact Q].
        destruct acc as [[i0 s0]|]; [destruct (s0 <? hseq hj)%N|]; try (apply Hacc; exact Q); inversion Q; subst; exists hj; repeat split; auto; apply HL; left; reflexivity. }
      destruct (IH acc' Hacc' ltac:(intros x Hx; apply HL; right; exact Hx) i s H) as (A & B & C). split; [exact A|]. split.
      + intros j' hj' [Q|Q] Cf; [|apply (B j' hj' Q Cf)]. inversion Q; subst j' hj'. subst acc'. rewrite Cf in C.
        destruct acc as [[i0 s0]|]; [destruct (N.ltb_spec s0 (hseq hj))|]; [apply (C j _ eq_refl)| pose proof (C i0 s0 eq_refl); lia| apply (C j _ eq_refl)].
      + intros j' sj' Q. subst acc acc'. destruct (is_confirmed hj); [destruct (N.ltb_spec sj' (hseq hj)); [pose proof (C j _ eq_refl); lia| apply (C j' sj' eq_refl)]| apply (C j' sj' eq_refl)]. }
  intros H. destruct (fold_left _ (indexed sl) None) as [[i s]|] eqn:E; [|discriminate]. cbn in H. inversion H; subst i.
  destruct (G (indexed sl) None ltac:(intros; discriminate) ltac:(auto) f s E) as ((h & Hin & Hc & Hs) & B & _).
  exists h. split; [exact Hin|]. split; [exact Hc|]. intros j hj Hj Cj. rewrite Hs. apply (B j hj Hj Cj).
Qed.
Print Assumptions fallback_spec.
