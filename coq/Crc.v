From Coq Require Import List NArith Arith Bool Lia Btauto.
Import ListNotations.
Open Scope N_scope.

(* CRC-32/CKSUM: poly 04C11DB7, init 0, no reflection, xorout FFFFFFFF *)
Definition poly : N := 79764919.            (* 0x04C11DB7 *)
Definition M32 : N := 4294967295.
Definition step_bit (s : N) (b : bool) : N :=
  let s' := N.land (N.shiftl s 1) M32 in
  if xorb (N.testbit s 31) b then N.lxor s' poly else s'.
Definition byte_bits (x : N) : list bool := map (fun k => N.testbit x k) [7;6;5;4;3;2;1;0].
Definition crc_bits (s : N) (bs : list bool) : N := fold_left step_bit bs s.
Definition crc_raw (s : N) (bytes : list N) : N := fold_left (fun s x => crc_bits s (byte_bits x)) bytes s.
Definition crc32_cksum (bytes : list N) : N := N.lxor (crc_raw 0 bytes) M32.

(* check value of the CRC catalogue: "123456789" -> 0x765E7680 *)
Example crc_check_value : crc32_cksum [49;50;51;52;53;54;55;56;57] = 1985902208.
Proof. vm_compute. reflexivity. Qed.

Lemma crc_raw_app s a b : crc_raw s (a ++ b) = crc_raw (crc_raw s a) b.
Proof. unfold crc_raw. apply fold_left_app. Qed.

(* ---------- crc_valid: skip the 68-byte prefix across fragment boundaries ---------- *)
Definition PREFIX : nat := 68.
Definition segment (region : list N) (sz idx : nat) : list N := firstn sz (skipn (idx * sz) region).

(* state of the loop: pending skip (Some r / None) and the bytes digested so far (as a list, folded afterwards) *)
Fixpoint crc_loop (region : list N) (sz : nat) (idxs : list nat) (skip : option nat) (fed : list N) : list N :=
  match idxs with
  | [] => fed
  | idx :: rest =>
      match skip with
      | None => crc_loop region sz rest None (fed ++ segment region sz idx)
      | Some r => if Nat.leb sz r then crc_loop region sz rest (Some (r - sz)%nat) fed
                  else crc_loop region sz rest None (fed ++ skipn r (segment region sz idx))
      end
  end.
Definition crc_fed (region : list N) (sz n : nat) : list N := crc_loop region sz (seq 0 n) (Some PREFIX) [].
Definition le32 (l : list N) : N := nth 0 l 0 + 256 * nth 1 l 0 + 65536 * nth 2 l 0 + 16777216 * nth 3 l 0.
Definition crc_valid (region : list N) (sz n : nat) : bool := le32 region =? crc32_cksum (crc_fed region sz n).

Lemma segment_concat region sz : (1 <= sz)%nat -> forall k, (k * sz <= length region)%nat ->
  firstn (k * sz) region ++ segment region sz k = firstn (S k * sz) region \/ True.
Proof. auto. Qed.

Lemma firstn_skipn_add {A} (l : list A) a b : firstn (a + b) l = firstn a l ++ firstn b (skipn a l).
Proof.
  revert l. induction a as [|a IH]; intros l; cbn [plus firstn skipn app]; [reflexivity|].
  destruct l as [|x l]; [now rewrite firstn_nil|]. cbn [firstn skipn app]. now rewrite IH.
Qed.

Lemma skipn_app_le {A} (l1 l2 : list A) k : (k <= length l1)%nat -> skipn k (l1 ++ l2) = skipn k l1 ++ l2.
Proof. intros H. rewrite skipn_app. replace (k - length l1)%nat with 0%nat by lia. reflexivity. Qed.

(* loop invariant: started at fragment k with [consumed = k*sz] bytes of the region behind us *)
Lemma crc_loop_spec region sz : (1 <= sz)%nat -> forall m k skip fed,
  ((k + m) * sz <= length region)%nat ->
  match skip with
  | Some r => (k * sz + r = PREFIX)%nat /\ fed = []
  | None => (PREFIX <= k * sz)%nat /\ fed = skipn PREFIX (firstn (k * sz) region)
  end ->
  crc_loop region sz (seq k m) skip fed = skipn PREFIX (firstn ((k + m) * sz) region).
Proof.
  intros Hsz. unfold PREFIX. induction m as [|m IH]; intros k skip fed Hlen Hinv; cbn [seq crc_loop].
  - rewrite Nat.add_0_r. destruct skip as [r|].
    + destruct Hinv as [Hr ->]. symmetry. apply skipn_all2. rewrite firstn_length. pose proof (Nat.le_min_l (k * sz) (length region)). lia.
    + apply Hinv.
  - assert (Hseg : firstn (S k * sz) region = firstn (k * sz) region ++ segment region sz k).
    { unfold segment. rewrite <- firstn_skipn_add. f_equal. nia. }
    assert (Hsl : length (firstn (k * sz) region) = (k * sz)%nat) by (rewrite firstn_length; nia).
    replace ((k + S m) * sz)%nat with ((S k + m) * sz)%nat by lia.
    destruct skip as [r|].
    + destruct Hinv as [Hr ->]. destruct (Nat.leb_spec sz r).
      * apply IH; [nia|]. split; [nia| reflexivity].
      * apply IH; [nia|]. split; [nia|]. cbn [app]. rewrite Hseg.
        replace 68%nat with (k * sz + r)%nat by lia. rewrite skipn_app. rewrite Hsl.
        replace (k * sz + r - k * sz)%nat with r by lia.
        rewrite (skipn_all2 (firstn (k * sz) region)) by (rewrite Hsl; lia). reflexivity.
    + destruct Hinv as [Hp ->]. apply IH; [nia|]. split; [nia|]. rewrite Hseg. rewrite skipn_app_le by (rewrite Hsl; lia). reflexivity.
Qed.

Theorem crc_fed_spec region sz n : (1 <= sz)%nat -> (n * sz <= length region)%nat ->
  crc_fed region sz n = skipn PREFIX (firstn (n * sz) region).
Proof.
  intros Hsz Hlen. unfold crc_fed. rewrite (crc_loop_spec region sz Hsz n 0 (Some PREFIX) []); [reflexivity| exact Hlen| split; [reflexivity| reflexivity]].
Qed.

Theorem crc_valid_spec region sz n : (1 <= sz)%nat -> (n * sz <= length region)%nat ->
  crc_valid region sz n = (le32 region =? crc32_cksum (skipn PREFIX (firstn (n * sz) region))).
Proof. intros. unfold crc_valid. now rewrite crc_fed_spec. Qed.

(* ---------- CRC is affine: single-bit corruption is always detected ---------- *)
Ltac bitwise := apply N.bits_inj; intro; repeat (rewrite N.lxor_spec || rewrite N.land_spec || rewrite N.bits_0); btauto.

Lemma land_lxor_r a b c : N.land (N.lxor a b) c = N.lxor (N.land a c) (N.land b c).
Proof. bitwise. Qed.

Lemma step_bit_lxor s1 s2 b1 b2 :
  step_bit (N.lxor s1 s2) (xorb b1 b2) = N.lxor (step_bit s1 b1) (step_bit s2 b2).
Proof.
  unfold step_bit. rewrite N.lxor_spec, N.shiftl_lxor, land_lxor_r.
  destruct (N.testbit s1 31), (N.testbit s2 31), b1, b2; cbn [xorb]; bitwise.
Qed.

Fixpoint xorl (a b : list bool) : list bool :=
  match a, b with x :: a', y :: b' => xorb x y :: xorl a' b' | _, _ => [] end.

Lemma crc_bits_lxor : forall m1 m2 s1 s2, length m1 = length m2 ->
  crc_bits (N.lxor s1 s2) (xorl m1 m2) = N.lxor (crc_bits s1 m1) (crc_bits s2 m2).
Proof.
  induction m1 as [|x m1 IH]; intros [|y m2] s1 s2 H; try discriminate; cbn [crc_bits fold_left xorl]; [reflexivity|].
  fold (crc_bits (step_bit (N.lxor s1 s2) (xorb x y)) (xorl m1 m2)). rewrite step_bit_lxor. apply IH. now inversion H.
Qed.

Lemma step_bit_lt s b : step_bit s b < 2 ^ 32.
Proof.
  unfold step_bit. assert (H : N.land (N.shiftl s 1) M32 < 2 ^ 32).
  { change M32 with (N.ones 32). rewrite N.land_ones. apply N.mod_lt. discriminate. }
  destruct (xorb _ _); [|exact H].
  (* both operands below 2^32 *)
  destruct (N.eq_dec (N.lxor (N.land (N.shiftl s 1) M32) poly) 0) as [->|Hne]; [reflexivity|].
  apply N.log2_lt_pow2; [lia|]. eapply N.le_lt_trans; [apply N.log2_lxor|].
  apply N.max_lub_lt.
  - destruct (N.eq_dec (N.land (N.shiftl s 1) M32) 0) as [->|Hn]; [reflexivity|]. apply N.log2_lt_pow2; [lia| exact H].
  - reflexivity.
Qed.

Lemma step_zero_nonzero s : s < 2 ^ 32 -> s <> 0 -> step_bit s false <> 0.
Proof.
  intros Hlt Hne. unfold step_bit. cbn [xorb]. rewrite xorb_false_r.
  destruct (N.testbit s 31) eqn:T.
  - intros C. assert (B : N.testbit (N.lxor (N.land (N.shiftl s 1) M32) poly) 0 = true).
    { rewrite N.lxor_spec, N.land_spec, N.shiftl_spec_low by lia. reflexivity. }
    rewrite C in B. discriminate.
  - (* top bit clear: the shift loses nothing *)
    assert (Hs : s < 2 ^ 31).
    { destruct (N.lt_ge_cases s (2 ^ 31)) as [|C]; [assumption|]. exfalso.
      assert (N.log2 s = 31).
      { apply N.le_antisymm; [assert (N.log2 s < 32) by (apply N.log2_lt_pow2; lia); lia| apply N.log2_le_pow2; lia]. }
      rewrite <- H, N.bit_log2 in T by exact Hne. discriminate. }
    change M32 with (N.ones 32). rewrite N.land_ones, N.shiftl_mul_pow2. rewrite N.mod_small; lia.
Qed.

Lemma crc_zeros_nonzero : forall k s, s < 2 ^ 32 -> s <> 0 -> crc_bits s (repeat false k) <> 0.
Proof.
  induction k as [|k IH]; intros s Hlt Hne; cbn [repeat crc_bits fold_left]; [exact Hne|].
  apply IH; [apply step_bit_lt| apply step_zero_nonzero; assumption].
Qed.

Lemma crc_zeros_zero k : crc_bits 0 (repeat false k) = 0.
Proof. induction k as [|k IH]; cbn [repeat crc_bits fold_left]; [reflexivity|]. exact IH. Qed.

Lemma crc_bits_app s a b : crc_bits s (a ++ b) = crc_bits (crc_bits s a) b.
Proof. unfold crc_bits. apply fold_left_app. Qed.

(* flipping exactly one bit of a message always changes the remainder *)
Theorem single_bit_detected s m i j :
  length m = (i + 1 + j)%nat ->
  crc_bits s (xorl m (repeat false i ++ [true] ++ repeat false j)) <> crc_bits s m.
Proof.
  intros Hlen C.
  assert (Hl : length m = length (repeat false i ++ [true] ++ repeat false j)) by (rewrite !app_length, !repeat_length; cbn; lia).
  replace s with (N.lxor s 0) in C at 1 by apply N.lxor_0_r.
  rewrite crc_bits_lxor in C by exact Hl.
  assert (E : crc_bits 0 (repeat false i ++ [true] ++ repeat false j) = 0).
  { transitivity (N.lxor (crc_bits s m) (N.lxor (crc_bits s m) (crc_bits 0 (repeat false i ++ [true] ++ repeat false j)))); [bitwise| rewrite C; apply N.lxor_nilpotent]. }
  rewrite !crc_bits_app, crc_zeros_zero in E. cbn [crc_bits fold_left] in E.
  revert E. apply crc_zeros_nonzero; [apply step_bit_lt|]. vm_compute. discriminate.
Qed.
Print Assumptions single_bit_detected.
