From Coq Require Import List NArith ZArith Arith Bool Lia.
Require Import Slots SlotsProof RingA Exact RingB Recover Idem Boot Life Life2.
Import ListNotations.

(* ghost: pairs written by a completed start and since then neither completed, cancelled nor erased *)
Definition started := list (nat * nat).
Definition dropS (i : nat) (st : started) : started := filter (fun p => negb (Nat.eqb (fst p) i) && negb (Nat.eqb (snd p) i)) st.
Lemma in_dropS i st f p : In (f, p) (dropS i st) <-> In (f, p) st /\ f <> i /\ p <> i.
Proof.
  unfold dropS. rewrite filter_In. cbn [fst snd]. destruct (Nat.eqb_spec f i), (Nat.eqb_spec p i); cbn; split; intros H; try tauto; destruct H as [_ H]; try discriminate; tauto.
Qed.

Definition awip (h : hdr) := total_status h = AppWriteInProgress.

Definition pair_ok (sl : slots) (fp : nat * nat) : Prop :=
  exists hf hp, hd_at sl (fst fp) hf /\ hd_at sl (snd fp) hp /\ awip hf /\ awip hp /\
    hkind hf = Firmware /\ hkind hp = Parity /\ hseq hp = (hseq hf + 1)%N.

Definition caseA (sl : slots) (st : started) (q : nat) (s : N) : Prop :=
  exists f hf, hd_at sl f hf /\ (hseq hf + 1)%N = s /\ hkind hf = Firmware /\ (awip hf -> In (f, q) st).
Definition caseB (sl : slots) (s : N) : Prop := forall j sj, seqat sl j = Some sj -> (s <= sj)%N.
Definition caseC (sl : slots) (s : N) : Prop :=
  exists top : N, (exists t, seqat sl t = Some top) /\ (forall j sj, seqat sl j = Some sj -> (sj <= top)%N) /\
    (Z.of_N s = Z.of_N top - Z.of_nat (length sl) + 3)%Z /\
    (exists x sx, seqat sl x = Some sx /\ Z.of_N sx = Z.of_N top - Z.of_nat (length sl) + 1)%Z /\
    (forall x sx, seqat sl x = Some sx -> Z.of_N sx <> Z.of_N top - Z.of_nat (length sl) + 2)%Z /\
    (exists c hc, hd_at sl c hc /\ is_confirmed hc = true /\ Z.of_N (hseq hc) <> Z.of_N top - Z.of_nat (length sl) + 1)%Z.

Record JS (NS : nat) (sl : slots) (st : started) : Prop := {
  JS_reach : reach NS sl;
  JS_pairs : forall fp, In fp st -> pair_ok sl fp;
  JS_par : forall q hp, hd_at sl q hp -> hkind hp = Parity -> awip hp -> caseA sl st q (hseq hp) \/ caseB sl (hseq hp) \/ caseC sl (hseq hp)
}.

Section Sound.
Variable NS : nat.
Hypothesis HN : (4 <= NS)%nat.
Variable fits : N -> N -> bool.

Lemma reach_distinct sl : reach NS sl -> seq_distinct (indexed sl).
Proof.
  intros R y z Hy Hz E. destruct (reach_sorted NS sl ltac:(lia) R) as [L S].
  apply (VSorted_distinct sl y z S ltac:(lia) Hy Hz E).
Qed.

(* C13: a session is only ever returned for a pair in `started` *)
Theorem recover_sound sl st f p sl' : JS NS sl st -> try_recover fits sl = (Some (f, p), sl') -> In (f, p) st.
Proof.
  intros J. pose proof (reach_distinct sl (JS_reach _ _ _ J)) as SD. destruct (reach_sorted NS sl ltac:(lia) (JS_reach _ _ _ J)) as [Ln _].
  unfold try_recover, recover_inner. pose proof (two_newest_top2 sl SD) as T.
  destruct (two_newest sl) as [[[ni nh]|] [[si sh]|]]; try discriminate.
  destruct (is_awip nh && negb (kind_is_fw nh) && is_awip sh && kind_is_fw sh && (hsize nh =? hsize sh)%N && fits (hsize sh) (hcount sh) && (hcount nh <=? 2048)%N) eqn:C; [|discriminate].
  intros H. inversion H; subst f p sl'. clear H.
  apply andb_prop in C. destruct C as [C _]. apply andb_prop in C. destruct C as [C _]. apply andb_prop in C. destruct C as [C _]. apply andb_prop in C. destruct C as [C C4].
  apply andb_prop in C. destruct C as [C C3]. apply andb_prop in C. destruct C as [C1 C2].
  cbn [Top2] in T. destruct T as (I & M & Jn & Nq & K).
  assert (An : awip nh) by (unfold awip; unfold is_awip in C1; destruct (total_status nh); try discriminate; reflexivity).
  assert (As : awip sh) by (unfold awip; unfold is_awip in C3; destruct (total_status sh); try discriminate; reflexivity).
  assert (Kn : hkind nh = Parity) by (unfold kind_is_fw in C2; destruct (hkind nh); [discriminate| reflexivity]).
  assert (Ks : hkind sh = Firmware) by (unfold kind_is_fw in C4; destruct (hkind sh); [reflexivity| discriminate]).
  pose proof I as I'. apply indexed_iff in I'. pose proof Jn as Jn'. apply indexed_iff in Jn'.
  assert (Lt : (hseq sh < hseq nh)%N).
  { pose proof (M (si, sh) Jn) as Le. cbn [snd] in Le. destruct (N.eq_dec (hseq sh) (hseq nh)) as [E|NE]; [|lia].
    exfalso. apply Nq. apply SD; [exact Jn| exact I| exact E]. }
  destruct (JS_par _ _ _ J ni nh I' Kn An) as [A|[B|Cc]].
  - destruct A as (f & hf & Hf & Sf & Kf & Inf).
    assert (Ef : (f, hf) = (si, sh)).
    { apply SD; [apply indexed_iff; exact Hf| exact Jn|]. cbn [snd].
      assert (Nf : (f, hf) <> (ni, nh)) by (intros Q; inversion Q; subst; lia).
      pose proof (K (f, hf) ltac:(apply indexed_iff; exact Hf) Nf) as Le. cbn [snd] in Le. lia. }
    inversion Ef; subst f hf. apply Inf. exact As.
  - exfalso. assert (Q : seqat sl si = Some (hseq sh)) by (apply seqat_hd; exists sh; split; [exact Jn'| reflexivity]).
    specialize (B si _ Q). lia.
  - exfalso. destruct Cc as (top & (t & St) & Mx & Eq & _).
    assert (Qn : seqat sl ni = Some (hseq nh)) by (apply seqat_hd; exists nh; split; [exact I'| reflexivity]).
    pose proof (Mx ni _ Qn) as L1.
    apply seqat_indexed in St. destruct St as (ht & Ht & Est). pose proof (M (t, ht) Ht) as L2. cbn [snd] in L2. rewrite Est in L2.
    rewrite Ln in Eq. lia.
Qed.
End Sound.
Print Assumptions recover_sound.
