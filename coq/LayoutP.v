(* Proofs about the header codec model (Layout.v holds the definitions only, so the model still
   builds and runs when a changed constant breaks a proof). *)
From Coq Require Import List NArith ZArith Bool Lia ZifyBool ZifyN.
Ltac Zify.zify_post_hook ::= Z.div_mod_to_equations.
Require Export Consts Layout.
Import ListNotations.
Open Scope N_scope.

(* ---- constants: gen/Consts.v is regenerated from the compiled crates on every check ---- *)

(* ---- little-endian words ---- *)

Lemma bytes_word b0 b1 b2 b3 : b0 < 256 -> b1 < 256 -> b2 < 256 -> b3 < 256 -> bytes_of (word_of b0 b1 b2 b3) = [b0; b1; b2; b3].
Proof. intros. unfold bytes_of, word_of. repeat f_equal; lia. Qed.

Lemma word_bytes v : v < 4294967296 ->
  word_of (v mod 256) ((v / 256) mod 256) ((v / 65536) mod 256) ((v / 16777216) mod 256) = v.
Proof. intros H. unfold word_of. lia. Qed.

(* ---- header ---- *)

Theorem parse_encode bs h : bytes_ok bs -> parse bs = Some h -> encode h = bs /\ legal h = true.
Proof.
  intros Hok Hp. unfold parse in Hp.
  do 28 (destruct bs as [|? bs]; [discriminate|]). destruct bs; [|discriminate].
  match type of Hp with (if legal ?hh then _ else _) = _ => destruct (legal hh) eqn:L; [|discriminate] end.
  inversion Hp; subst h. split; [|exact L]. unfold encode; cbn [kind seq size count ext int_ boot].
  repeat match goal with H : bytes_ok (_ :: _) |- _ => inversion H; clear H; subst end.
  repeat match goal with H : Forall _ (_ :: _) |- _ => inversion H; clear H; subst end.
  rewrite !bytes_word by assumption. reflexivity.
Qed.

Lemma existsb_code_lt v codes : Forall (fun c => c < 4294967296) codes -> existsb (N.eqb v) codes = true -> v < 4294967296.
Proof. intros HF H. apply existsb_exists in H. destruct H as (c & Hc & E). apply N.eqb_eq in E. subst. rewrite Forall_forall in HF. apply HF; exact Hc. Qed.

Theorem encode_parse h : legal h = true -> parse (encode h) = Some h.
Proof.
  intros L. pose proof L as L0. unfold legal in L.
  repeat (apply andb_prop in L; destruct L as [L ?]).
  assert (Hk : kind h < 4294967296) by (apply orb_prop in L; destruct L as [E|E]; apply N.eqb_eq in E; rewrite E; reflexivity).
  assert (Hs : seq h < 4294967296) by (apply N.ltb_lt; assumption).
  assert (Hz : size h < 4294967296) by (assert (size h <= MAX_SEGMENT_SIZE) by (apply N.leb_le; assumption); unfold MAX_SEGMENT_SIZE in *; lia).
  assert (Hc : count h < 4294967296) by (assert (count h <= MAX_SEGMENTS) by (apply N.leb_le; assumption); unfold MAX_SEGMENTS in *; lia).
  assert (He : ext h < 4294967296) by (eapply existsb_code_lt; [|eassumption]; repeat constructor).
  assert (Hi : int_ h < 4294967296) by (eapply existsb_code_lt; [|eassumption]; repeat constructor).
  assert (Hb : boot h < 4294967296) by (eapply existsb_code_lt; [|eassumption]; repeat constructor).
  unfold encode, bytes_of. cbn [app parse]. rewrite !word_bytes by assumption.
  destruct h as [k s z c e i b]; cbn [kind seq size count ext int_ boot] in *. now rewrite L0.
Qed.

(* ---- tear safety: generic lemma + instance by computation ---- *)

Theorem tear_safe codes : tear_safe_b codes = true ->
  forall old new mid, In old codes -> In new codes ->
    N.land mid old = mid -> N.land (N.land old new) mid = N.land old new ->     (* old&new ⊆ mid ⊆ old *)
    In mid codes -> mid = old \/ mid = new.
Proof.
  intros H old new mid Ho Hn H1 H2 Hm. unfold tear_safe_b in H. rewrite forallb_forall in H. specialize (H old Ho).
  rewrite forallb_forall in H. specialize (H new Hn). rewrite forallb_forall in H. specialize (H mid Hm).
  unfold subset in H. rewrite H1, H2, !N.eqb_refl in H. cbn [andb] in H.
  apply orb_prop in H. destruct H as [E|E]; apply N.eqb_eq in E; auto.
Qed.

Example ext_tear_safe : tear_safe_b ext_codes = true.   Proof. vm_compute. reflexivity. Qed.

Example int_tear_safe : tear_safe_b int_codes = true.   Proof. vm_compute. reflexivity. Qed.

Example boot_tear_safe : tear_safe_b boot_codes = true. Proof. vm_compute. reflexivity. Qed.

(* transitions the API performs only clear bits *)

Example transitions_clear_only :
  forallb (fun '(o, n) => clears_only o n)
    [(EXT_IN_PROGRESS, EXT_ABORTED); (EXT_IN_PROGRESS, EXT_COMPLETE); (INT_IN_PROGRESS, INT_COMPLETE);
     (BOOT_UNTESTED, BOOT_SUCCESSFUL); (BOOT_UNTESTED, BOOT_UNSUCCESSFUL)] = true.
Proof. vm_compute. reflexivity. Qed.

(* values deployed bootloaders read (pinned from the property text) *)

Example codes_pinned :
  (EXT_COMPLETE, EXT_ABORTED, INT_COMPLETE, BOOT_SUCCESSFUL, BOOT_UNSUCCESSFUL, KIND_FIRMWARE, KIND_PARITY)
  = (0x44444444, 0xAAAAAAAA, 0x11111111, 0xABCD1234, 0xCDEF7890, 0, 1).
Proof. reflexivity. Qed.

(* ---- combined status classification (layout.rs / protocol.rs total_status) ---- *)

(* ---- status marks: one 4-byte program (bitwise AND on NOR) at the field's offset ---- *)

(* ---- a byte string parses iff it is 28 bytes whose seven little-endian words are legal ---- *)

Theorem parse_iff_legal bs : (exists h, parse bs = Some h) <-> (exists h, fields_of bs = Some h /\ legal h = true).
Proof.
  unfold parse, fields_of.
  do 28 (destruct bs as [|? bs]; [split; intros (h & H); [discriminate | destruct H; discriminate]|]).
  destruct bs; [|split; intros (h & H); [discriminate | destruct H; discriminate]].
  match goal with |- context [legal ?hh] => set (h0 := hh) end.
  split.
  - intros (h & H). destruct (legal h0) eqn:L; [|discriminate]. exists h0. split; [reflexivity|exact L].
  - intros (h & H1 & H2). inversion H1; subst h. rewrite H2. eexists; reflexivity.
Qed.

(* ---- the classification, stated as a table over the legal codes, checked by computation ---- *)

Lemma tstatus_eqb_eq a b : tstatus_eqb a b = true -> a = b.
Proof. destruct a, b; simpl; congruence. Qed.

Lemma total_status_seq_irrel h h' : ext h = ext h' -> int_ h = int_ h' -> boot h = boot h' ->
  (seq h =? SEQ_INVALID) = (seq h' =? SEQ_INVALID) -> total_status h = total_status h'.
Proof. intros He Hi Hb Hs. unfold total_status. rewrite He, Hi, Hb, Hs. reflexivity. Qed.

Theorem total_status_table : status_table_ok = true ->
  forall h, In (ext h) ext_codes -> In (int_ h) int_codes -> In (boot h) boot_codes ->
    total_status h = spec_status (negb (seq h =? SEQ_INVALID)) (ext h) (int_ h) (boot h).
Proof.
  intros T h He Hi Hb. unfold status_table_ok in T.
  rewrite forallb_forall in T. specialize (T _ He). rewrite forallb_forall in T. specialize (T _ Hi).
  rewrite forallb_forall in T. specialize (T _ Hb). rewrite forallb_forall in T.
  destruct (seq h =? SEQ_INVALID) eqn:S.
  - specialize (T SEQ_INVALID (or_intror (or_intror (or_intror (or_introl eq_refl))))). apply tstatus_eqb_eq in T.
    rewrite N.eqb_refl in T. rewrite <- T. apply total_status_seq_irrel; try reflexivity. cbn [seq]. rewrite S, N.eqb_refl. reflexivity.
  - specialize (T 0 (or_introl eq_refl)). apply tstatus_eqb_eq in T. change (0 =? SEQ_INVALID) with false in T.
    rewrite <- T. apply total_status_seq_irrel; try reflexivity. cbn [seq]. rewrite S. reflexivity.
Qed.

Example status_table_checked : status_table_ok = true. Proof. vm_compute. reflexivity. Qed.

(* ---- lemmas pinned by props/C11.v ---- *)

Lemma In_existsb v codes : existsb (N.eqb v) codes = true <-> In v codes.
Proof.
  rewrite existsb_exists. split.
  - intros (c & Hc & E). apply N.eqb_eq in E. now subst.
  - intros H. exists v. split; [exact H|apply N.eqb_refl].
Qed.

Lemma legal_spelled_out h : legal h = true <->
  (kind h = KIND_FIRMWARE \/ kind h = KIND_PARITY) /\ seq h <> 4294967295 /\ seq h < 4294967296 /\
  1 <= size h <= 256 /\ 1 <= count h <= 16384 /\
  In (ext h) [EXT_IN_PROGRESS; EXT_ABORTED; EXT_COMPLETE] /\
  In (int_ h) [INT_IN_PROGRESS; INT_COMPLETE] /\
  In (boot h) [BOOT_UNTESTED; BOOT_SUCCESSFUL; BOOT_UNSUCCESSFUL].
Proof.
  unfold legal. rewrite !andb_true_iff, orb_true_iff, negb_true_iff, !N.eqb_eq, N.eqb_neq, N.ltb_lt, !N.leb_le, !In_existsb.
  unfold SEQ_INVALID, ext_codes, int_codes, boot_codes.
  change MAX_SEGMENT_SIZE with 256. change MAX_SEGMENTS with 16384. tauto.
Qed.

Lemma deployed_values :
  (KIND_OFFSET, SEQUENCE_NUMBER_OFFSET, SEGMENT_SIZE_OFFSET, NUMBER_OF_SEGMENTS_OFFSET,
   WRITE_EXT_STATUS_OFFSET, WRITE_INT_STATUS_OFFSET, BOOT_OUTCOME_OFFSET, SLOT_HEADER_SIZE)
  = (0, 4, 8, 12, 16, 20, 24, 28) /\
  (KIND_FIRMWARE, KIND_PARITY) = (0, 1) /\
  (EXT_IN_PROGRESS, EXT_ABORTED, EXT_COMPLETE) = (0xFFFFFFFF, 0xAAAAAAAA, 0x44444444) /\
  (INT_IN_PROGRESS, INT_COMPLETE) = (0xFFFFFFFF, 0x11111111) /\
  (BOOT_UNTESTED, BOOT_SUCCESSFUL, BOOT_UNSUCCESSFUL) = (0xFFFFFFFF, 0xABCD1234, 0xCDEF7890) /\
  (DATA_NOT_WRITTEN, DATA_WRITTEN) = (0xFF, 0x33) /\
  (WRITTEN_OFFSET, DATA_REGION_OFFSET, DATA_PAYLOAD_OFFSET) = (0x400, 0x4400, 0x4444) /\
  (MAX_SEGMENT_SIZE, MAX_SEGMENTS) = (256, 16384).
Proof. repeat split. Qed.

Lemma original_same_values :
  (O_KIND_OFFSET, O_SEQUENCE_NUMBER_OFFSET, O_SEGMENT_SIZE_OFFSET, O_NUMBER_OF_SEGMENTS_OFFSET,
   O_WRITE_EXT_STATUS_OFFSET, O_WRITE_INT_STATUS_OFFSET, O_BOOT_OUTCOME_OFFSET, O_SLOT_HEADER_SIZE,
   O_KIND_FIRMWARE, O_KIND_PARITY, O_EXT_IN_PROGRESS, O_EXT_ABORTED, O_EXT_COMPLETE, O_INT_IN_PROGRESS, O_INT_COMPLETE,
   O_BOOT_UNTESTED, O_BOOT_SUCCESSFUL, O_BOOT_UNSUCCESSFUL, O_DATA_NOT_WRITTEN, O_DATA_WRITTEN,
   O_WRITTEN_OFFSET, O_DATA_REGION_OFFSET, O_DATA_PAYLOAD_OFFSET, O_MAX_SEGMENT_SIZE, O_MAX_SEGMENTS)
  = (KIND_OFFSET, SEQUENCE_NUMBER_OFFSET, SEGMENT_SIZE_OFFSET, NUMBER_OF_SEGMENTS_OFFSET,
   WRITE_EXT_STATUS_OFFSET, WRITE_INT_STATUS_OFFSET, BOOT_OUTCOME_OFFSET, SLOT_HEADER_SIZE,
   KIND_FIRMWARE, KIND_PARITY, EXT_IN_PROGRESS, EXT_ABORTED, EXT_COMPLETE, INT_IN_PROGRESS, INT_COMPLETE,
   BOOT_UNTESTED, BOOT_SUCCESSFUL, BOOT_UNSUCCESSFUL, DATA_NOT_WRITTEN, DATA_WRITTEN,
   WRITTEN_OFFSET, DATA_REGION_OFFSET, DATA_PAYLOAD_OFFSET, MAX_SEGMENT_SIZE, MAX_SEGMENTS).
Proof. reflexivity. Qed.

Lemma tear_safe_all codes : In codes [ext_codes; int_codes; boot_codes] ->
  forall old new mid, In old codes -> In new codes ->
    N.land mid old = mid -> N.land (N.land old new) mid = N.land old new ->
    In mid codes -> mid = old \/ mid = new.
Proof.
  intros [H|[H|[H|[]]]]; subst codes; apply tear_safe;
    [exact ext_tear_safe | exact int_tear_safe | exact boot_tear_safe].
Qed.

Lemma mark_effect m bs : length bs = 28%nat ->
  length (apply_mark m bs) = 28%nat /\
  forall k, (k < 28)%nat ->
    nth k (apply_mark m bs) 0 =
      (if (fst (mark_field m) <=? N.of_nat k) && (N.of_nat k <? fst (mark_field m) + 4)
       then N.land (nth k bs 0) (nth (k - N.to_nat (fst (mark_field m))) (bytes_of (snd (mark_field m))) 255)
       else nth k bs 0).
Proof.
  intros L. unfold apply_mark. destruct (mark_field m) as [off code] eqn:E. cbn [fst snd].
  split; [rewrite map_length, combine_length, seq_length, L; reflexivity|].
  intros k Hk.
  assert (Hn : nth k (combine (List.seq 0 (length bs)) bs) (0%nat, 0) = (k, nth k bs 0)).
  { rewrite combine_nth by (rewrite seq_length; reflexivity). rewrite seq_nth by (rewrite L; exact Hk). reflexivity. }
  set (f := fun '(i, b) => let k0 := N.of_nat i in if (off <=? k0) && (k0 <? off + 4) then N.land b (nth (N.to_nat (k0 - off)) (bytes_of code) 255) else b).
  rewrite (nth_indep _ 0 (f (0%nat, 0))) by (rewrite map_length, combine_length, seq_length, L; cbn; exact Hk).
  rewrite map_nth, Hn. unfold f. cbv zeta. rewrite N2Nat.inj_sub, Nat2N.id. reflexivity.
Qed.
