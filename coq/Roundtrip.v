From Coq Require Import List NArith Arith Bool Lia.
Require Import Nor Geom Store GRecon Sim.
Import ListNotations.
Open Scope N_scope.

(* what try_recover_inner reads back from flash *)
Definition rec_done (g : geo) (m : mem) (i : nat) : bool := m (saddr g (N.of_nat i)) =? MARK.
Definition rec_used (g : geo) (m : mem) (k : nat) : bool := mused g m (N.of_nat k).
Definition count (f : nat -> bool) (k : nat) : nat := length (filter f (seq 0 k)).
Definition rec_l (g : geo) (m : mem) (nn capn : nat) : nat :=
  if existsb (rec_used g m) (seq 0 capn) then (nn - count (rec_done g m) nn)%nat else 0%nat.

(* C07 core: at every fragment boundary of a crash-free run, the state rebuilt from flash is the live state *)
Theorem recover_roundtrip g sa sc : Pair g sa sc -> Good g sa 0 ->
  (forall i, (i < n sa)%nat -> rec_done g (store sc) i = done sa i) /\
  (forall k, N.of_nat k < capL g -> rec_used g (store sc) k = used sa k).
Proof.
  intros P G. split.
  - intros i Hi. assert (HiN : N.of_nat i < nseg g) by (rewrite <- (G_n g sa 0 G); lia).
    pose proof (R_d g _ _ (P_rel g sa sc P) i HiN) as V. unfold dview in V. unfold rec_done.
    destruct (done sa i) eqn:D.
    + destruct (adat (store sa) i) eqn:E; [|exfalso; apply (G_d1 g sa 0 G i Hi D); exact E].
      destruct (store sc (saddr g (N.of_nat i)) =? MARK); [reflexivity| discriminate].
    + destruct (adat (store sa) i) eqn:E.
      * exfalso. assert (Q : adat (store sa) i <> None) by congruence. apply (G_d0 g sa 0 G i Hi D) in Q. destruct Q as (j & Hj & _). lia.
      * destruct (store sc (saddr g (N.of_nat i)) =? MARK); [discriminate| reflexivity].
  - intros k Hk. destruct (R_p g _ _ (P_rel g sa sc P) k Hk) as [V _]. unfold pview in V. unfold rec_used.
    destruct (used sa k) eqn:U.
    + destruct (apar (store sa) k) eqn:E.
      * destruct (mused g (store sc) (N.of_nat k)); [reflexivity| discriminate].
      * exfalso. destruct (Nat.lt_ge_cases k (l sa)) as [Hl|Hl]; [apply (G_u1 g sa 0 G k Hl U); exact E|].
        pose proof (G_ur g sa 0 G k U). lia.
    + rewrite (G_u0 g sa 0 G k U) in V. destruct (mused g (store sc) (N.of_nat k)); [discriminate| reflexivity].
Qed.
Print Assumptions recover_roundtrip.

