From Coq Require Import List NArith ZArith Arith Bool Lia Btauto.
Import ListNotations.
Open Scope N_scope.

(* NOR flash at byte granularity: total map address -> byte value (0..255) *)
Definition mem := N -> N.
Definition erased (m : mem) (a len : N) : Prop := forall x, a <= x < a + len -> m x = 255.
Definition wf (m : mem) : Prop := forall x, m x < 256.

(* byte k of a value *)
Definition byte_of (v : N) (k : N) : N := N.land (N.shiftr v (8 * k)) 255.

(* program a block of [len] bytes holding the little-endian value [v] at address [a]: AND semantics *)
Definition program (m : mem) (a len v : N) : mem :=
  fun x => if (a <=? x) && (x <? a + len) then N.land (m x) (byte_of v (x - a)) else m x.

(* read a block as a little-endian value *)
Fixpoint read_n (m : mem) (a : N) (len : nat) : N :=
  match len with O => 0 | S k => m a + 256 * read_n m (a + 1) k end.
Definition read (m : mem) (a len : N) : N := read_n m a (N.to_nat len).

Definition erase (m : mem) (a len : N) : mem := fun x => if (a <=? x) && (x <? a + len) then 255 else m x.

Lemma byte_of_lt v k : byte_of v k < 256.
Proof. unfold byte_of. change 255 with (N.ones 8). rewrite N.land_ones. apply N.mod_lt. discriminate. Qed.

Lemma land_255_l x : x < 256 -> N.land 255 x = x.
Proof. intros H. rewrite N.land_comm. change 255 with (N.ones 8). rewrite N.land_ones. apply N.mod_small. exact H. Qed.

Lemma program_outside m a len v x : x < a \/ a + len <= x -> program m a len v x = m x.
Proof. intros H. unfold program. destruct (N.leb_spec a x), (N.ltb_spec x (a + len)); cbn [andb]; try reflexivity; lia. Qed.

Lemma program_inside_erased m a len v x : erased m a len -> a <= x < a + len -> program m a len v x = byte_of v (x - a).
Proof.
  intros He Hx. unfold program. destruct (N.leb_spec a x), (N.ltb_spec x (a + len)); cbn [andb]; try lia.
  rewrite (He x Hx). apply land_255_l, byte_of_lt.
Qed.

Lemma land_lt_256 a b : a < 256 -> N.land a b < 256.
Proof.
  intros H. rewrite <- (N.mod_small a 256 H). change 256 with (2 ^ 8). rewrite <- N.land_ones.
  rewrite <- N.land_assoc, (N.land_comm (N.ones 8)), N.land_assoc, N.land_ones. apply N.mod_lt. discriminate.
Qed.

Lemma program_wf m a len v : wf m -> wf (program m a len v).
Proof. intros H x. unfold program. destruct (_ && _); [apply land_lt_256|]; apply H. Qed.

Lemma erase_wf m a len : wf m -> wf (erase m a len).
Proof. intros H x. unfold erase. destruct (_ && _); [reflexivity| apply H]. Qed.

(* reading *)
Lemma read_n_ext m m' a k : (forall x, a <= x < a + N.of_nat k -> m x = m' x) -> read_n m a k = read_n m' a k.
Proof.
  revert a. induction k as [|k IH]; intros a H; cbn [read_n]; [reflexivity|].
  rewrite (H a) by lia. rewrite (IH (a + 1)); [reflexivity|]. intros x Hx. apply H. lia.
Qed.

Lemma read_ext m m' a len : (forall x, a <= x < a + len -> m x = m' x) -> read m a len = read m' a len.
Proof. intros H. unfold read. apply read_n_ext. intros x Hx. apply H. lia. Qed.

Lemma read_program_disjoint m a len v b blen :
  b + blen <= a \/ a + len <= b -> read (program m a len v) b blen = read m b blen.
Proof. intros H. apply read_ext. intros x Hx. apply program_outside. lia. Qed.

(* little-endian digits *)
Lemma byte_of_spec v k : byte_of v k = (v / 2 ^ (8 * k)) mod 256.
Proof. unfold byte_of. rewrite N.shiftr_div_pow2. change 255 with (N.ones 8). now rewrite N.land_ones. Qed.

Lemma read_n_digits (f : N -> N) : forall k a v,
  (forall x, a <= x < a + N.of_nat k -> f x = byte_of v (x - a)) -> read_n f a k = v mod 2 ^ (8 * N.of_nat k).
Proof.
  induction k as [|k IH]; intros a v H; cbn [read_n].
  - cbn. now rewrite N.mod_1_r.
  - rewrite (H a) by lia. rewrite N.sub_diag, byte_of_spec, N.mul_0_r, N.pow_0_r, N.div_1_r.
    rewrite (IH (a + 1) (v / 256)).
    2:{ intros x Hx. rewrite (H x) by lia. rewrite !byte_of_spec. replace (x - a) with ((x - (a + 1)) + 1) by lia.
        replace (8 * (x - (a + 1) + 1)) with (8 + 8 * (x - (a + 1))) by lia. rewrite N.pow_add_r. change (2 ^ 8) with 256.
        rewrite <- N.div_div by (try discriminate; apply N.pow_nonzero; discriminate). reflexivity. }
    replace (8 * N.of_nat (S k)) with (8 + 8 * N.of_nat k) by lia. rewrite N.pow_add_r. change (2 ^ 8) with 256.
    rewrite (N.mod_mul_r v 256) by (try discriminate; apply N.pow_nonzero; discriminate). reflexivity.
Qed.

Theorem read_program_same m a len v :
  erased m a len -> v < 2 ^ (8 * len) -> read (program m a len v) a len = v.
Proof.
  intros He Hv. unfold read. rewrite (read_n_digits _ (N.to_nat len) a v).
  - rewrite N2Nat.id. apply N.mod_small. exact Hv.
  - intros x Hx. apply program_inside_erased; [exact He| lia].
Qed.

(* ---------- programming over a compatible (possibly dirty or torn) region ---------- *)
(* a region is compatible with v when every 0 bit it already has is also 0 in v: erased regions, regions that already
   hold v, and any torn prefix of programming v are all compatible with v *)
Definition compatible (m : mem) (a len v : N) : Prop :=
  forall x, a <= x < a + len -> N.land (m x) (byte_of v (x - a)) = byte_of v (x - a).

Lemma erased_compatible m a len v : erased m a len -> compatible m a len v.
Proof. intros He x Hx. rewrite (He x Hx). apply land_255_l, byte_of_lt. Qed.

Theorem read_program_compat m a len v :
  compatible m a len v -> v < 2 ^ (8 * len) -> read (program m a len v) a len = v.
Proof.
  intros Hc Hv. unfold read. rewrite (read_n_digits _ (N.to_nat len) a v).
  - rewrite N2Nat.id. apply N.mod_small. exact Hv.
  - intros x Hx. unfold program. destruct (N.leb_spec a x), (N.ltb_spec x (a + len)); cbn [andb]; try lia. apply Hc. lia.
Qed.

(* a torn program of v (any bits of the target bytes already cleared, none wrongly) leaves the region compatible with v *)
Lemma torn_compatible m m' a len v :
  compatible m a len v ->
  (forall x, a <= x < a + len -> N.land (m' x) (m x) = m' x /\ N.land (m' x) (byte_of v (x - a)) = byte_of v (x - a)) ->
  compatible m' a len v.
Proof. intros _ H x Hx. apply (H x Hx). Qed.

(* re-programming the same value is idempotent: the re-sent fragment after a crash lands on its own bytes *)
Theorem program_idempotent m a len v x : program (program m a len v) a len v x = program m a len v x.
Proof.
  unfold program. destruct ((a <=? x) && (x <? a + len)); [|reflexivity].
  rewrite <- N.land_assoc, N.land_diag. reflexivity.
Qed.
