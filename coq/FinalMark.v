(* C04 on the executable model: the final check-and-mark under power loss.  Whatever prefix of the operations of a
   check_and_mark_done call reached the flash, and however the interrupted program was torn, the data region of the firmware
   slot is the one the CRC routine accepted: a slot that has been touched by the call validates in every crash state. *)
From Coq Require Import List NArith ZArith Arith Bool Lia.
Require Import Consts Nor Geom Crc.
Require Slots.
Require Import MRecon Mgr MgrP CrcTie StartSim.
Import ListNotations.
Open Scope N_scope.

(* the operations a call appended to the device log, oldest first *)
Definition new_ops (d d' : dev) : list fop := rev (firstn (length (dlog d') - length (dlog d)) (dlog d')).

Definition mark_op (m : mgr) (i : nat) (o : fop) : Prop :=
  exists z, o = FProg (base m i + WRITE_EXT_STATUS_OFFSET) 4 EXT_COMPLETE z.

Lemma prog_word_newlog m i off v d d' r : prog_word m i off v d = (d', r) ->
  dlog d' = dlog d \/ exists z, dlog d' = FProg (base m i + off) 4 v z :: dlog d.
Proof.
  unfold prog_word. intros H. pose proof (d_prog_log d (base m i + off) 4 v) as L.
  destruct (d_prog d (base m i + off) 4 v) as [d1 [|]]; cbn [fst] in L; inversion H; subst; exact L.
Qed.

(* what the call can append: nothing, the firmware slot's Complete mark, or that mark and then the parity slot's - and only
   after the CRC routine accepted the slot *)
Lemma final_mark_ops m u d d' r : check_and_mark_done m u d = (d', r) ->
  new_ops d d' = [] \/
  ((exists h d1, load_header m (u_fw u) d = (d1, Some (Some h)) /\ snd (crc_valid m (u_fw u) h d1) = ROk tt) /\
   exists o1, mark_op m (u_fw u) o1 /\ (new_ops d d' = [o1] \/ exists o2, mark_op m (u_par u) o2 /\ new_ops d d' = [o1; o2])).
Proof.
  intros H. unfold check_and_mark_done in H.
  assert (NIL : forall x, dlog x = dlog d -> new_ops d x = []) by (intros x E; unfold new_ops; rewrite E, Nat.sub_diag; reflexivity).
  destruct (u_complete u); cbn [negb] in H; [|inversion H; subst; left; apply NIL; reflexivity].
  pose proof (load_header_log m (u_fw u) d) as HL.
  destruct (load_header m (u_fw u) d) as [d1 [[h|]|]] eqn:E; cbn [fst] in HL; try (inversion H; subst; left; apply NIL; apply HL).
  pose proof (crc_valid_log m (u_fw u) h d1) as HC.
  destruct (crc_valid m (u_fw u) h d1) as [d2 [[]|e|]] eqn:EC; cbn [fst] in HC; try (inversion H; subst; left; apply NIL; destruct HL, HC; congruence).
  assert (L2 : dlog d2 = dlog d) by (destruct HL, HC; congruence).
  unfold mark in H.
  destruct (prog_word m (u_fw u) WRITE_EXT_STATUS_OFFSET EXT_COMPLETE d2) as [d3 r3] eqn:P1.
  destruct (prog_word_newlog _ _ _ _ _ _ _ P1) as [N1|(z1 & N1)].
  - (* the first mark did not reach the log: it failed, nothing follows *)
    destruct r3 as [[]|e|]; try (inversion H; subst; left; apply NIL; congruence).
    exfalso. unfold prog_word in P1. destruct (d_prog d2 (base m (u_fw u) + WRITE_EXT_STATUS_OFFSET) 4 EXT_COMPLETE) as [x [|]] eqn:DP; [|discriminate].
    inversion P1; subst. destruct (d_prog_log2 d2 (base m (u_fw u) + WRITE_EXT_STATUS_OFFSET) 4 EXT_COMPLETE) as [T _]. rewrite DP in T. cbn [fst snd] in T.
    destruct (T eq_refl) as (z & Q). rewrite Q in N1. apply (f_equal (@length fop)) in N1. cbn [length] in N1. lia.
  - right. split; [exists h, d1; split; [reflexivity| rewrite EC; reflexivity]|].
    exists (FProg (base m (u_fw u) + WRITE_EXT_STATUS_OFFSET) 4 EXT_COMPLETE z1). split; [exists z1; reflexivity|].
    assert (ONE : forall x, dlog x = dlog d3 -> new_ops d x = [FProg (base m (u_fw u) + WRITE_EXT_STATUS_OFFSET) 4 EXT_COMPLETE z1]).
    { intros x Ex. unfold new_ops. rewrite Ex, N1, L2. cbn [length]. replace (S (length (dlog d)) - length (dlog d))%nat with 1%nat by lia. reflexivity. }
    destruct r3 as [[]|e|]; try (inversion H; subst; left; apply ONE; reflexivity).
    destruct (prog_word m (u_par u) WRITE_EXT_STATUS_OFFSET EXT_COMPLETE d3) as [d4 r4] eqn:P2.
    assert (Ed' : d' = d4) by (destruct r4 as [[]|e|]; inversion H; reflexivity). subst d'.
    destruct (prog_word_newlog _ _ _ _ _ _ _ P2) as [N2|(z2 & N2)]; [left; apply ONE; exact N2|].
    right. exists (FProg (base m (u_par u) + WRITE_EXT_STATUS_OFFSET) 4 EXT_COMPLETE z2). split; [exists z2; reflexivity|].
    unfold new_ops. rewrite N2, N1, L2. cbn [length]. replace (S (S (length (dlog d))) - length (dlog d))%nat with 2%nat by lia. reflexivity.
Qed.

(* a (possibly torn) program only touches its own byte range *)
Lemma torn_prog_outside mm a len v j keep x : x < a \/ a + len <= x -> torn_prog mm a len v j keep x = mm x.
Proof. intros H. unfold torn_prog. destruct ((a <=? x) && (x <? a + len)) eqn:C; [|reflexivity]. apply andb_prop in C. destruct C as [C1 C2]. apply N.leb_le in C1. apply N.ltb_lt in C2. lia. Qed.

Lemma in_firstn {A} (x : A) : forall k l, In x (firstn k l) -> In x l.
Proof. induction k as [|k IH]; intros [|y tl] H; cbn [firstn] in H; try contradiction. destruct H as [->|H]; [left; reflexivity| right; apply IH; exact H]. Qed.

Lemma crash_mem_outside blk mm ops k torn x :
  (forall o, In o ops -> exists a len v z, o = FProg a len v z /\ (x < a \/ a + len <= x)) ->
  crash_mem blk mm ops k torn x = mm x.
Proof.
  intros H. unfold crash_mem.
  assert (P : forall l m0, (forall o, In o l -> In o ops) -> fold_left (apply_fop blk) l m0 x = m0 x).
  { induction l as [|o tl IH]; intros m0 Hin; cbn [fold_left]; [reflexivity|].
    rewrite IH by (intros o' Ho'; apply Hin; right; exact Ho').
    destruct (H o (Hin o (or_introl eq_refl))) as (a & len & v & z & -> & Hx). cbn [apply_fop]. apply program_outside. exact Hx. }
  assert (PF : fold_left (apply_fop blk) (firstn k ops) mm x = mm x) by (apply P; intros o Ho; eapply in_firstn; exact Ho).
  destruct (nth_error ops k) as [o|] eqn:E; [|exact PF].
  destruct o as [a|a len v z]; [exact PF|]. destruct torn as [[j keep]|]; [|exact PF].
  destruct (H _ (nth_error_In _ _ E)) as (a' & len' & v' & z' & Q & Hx). inversion Q; subst.
  rewrite torn_prog_outside by exact Hx. exact PF.
Qed.

(* ---------- the theorem ---------- *)
Theorem final_mark_crash_safe m u d d' r len k torn :
  wf (dmem d) -> dfail d = None ->
  (u_fw u = u_par u \/ u_fw u <> u_par u) ->
  DATA_REGION_OFFSET + N.of_nat len <= m_size m ->
  base m (u_fw u) + DATA_REGION_OFFSET + N.of_nat len <= dtotal d ->
  check_and_mark_done m u d = (d', r) ->
  forall h d1, load_header m (u_fw u) d = (d1, Some (Some h)) ->
  1 <= Slots.hsize h -> Slots.hcount h <= MAX_SEGMENTS -> Slots.hsize h <= MAX_SEGMENT_SIZE ->
  (68 <= len)%nat -> (N.to_nat (Slots.hcount h) * N.to_nat (Slots.hsize h) <= len)%nat ->
  let mm := crash_mem (dblk d) (dmem d) (new_ops d d') k torn in
  (* the data region is untouched in every crash state ... *)
  (forall x, base m (u_fw u) + DATA_REGION_OFFSET <= x < base m (u_fw u) + DATA_REGION_OFFSET + N.of_nat len -> mm x = dmem d x) /\
  (* ... and if the call programmed anything at all, that region passes the CRC routine *)
  (new_ops d d' <> [] -> Crc.crc_valid (region (with_mem d mm) m (u_fw u) len) (N.to_nat (Slots.hsize h)) (N.to_nat (Slots.hcount h)) = true).
Proof.
  intros W F _ Hfit Hdev H h d1 LH Hs Hc Hm L68 Lfit mm.
  destruct (final_mark_ops m u d d' r H) as [NIL|((h' & d1' & LH' & CV) & o1 & M1 & SHAPE)].
  - split; [|intros Q; contradiction]. intros x Hx. unfold mm. rewrite NIL. unfold crash_mem. destruct k; reflexivity.
  - rewrite LH in LH'. inversion LH'; subst h' d1'. clear LH'.
    assert (OUT : forall x, base m (u_fw u) + DATA_REGION_OFFSET <= x < base m (u_fw u) + DATA_REGION_OFFSET + N.of_nat len -> mm x = dmem d x).
    { intros x Hx. unfold mm. apply crash_mem_outside. intros o Ho.
      assert (Hmark : mark_op m (u_fw u) o \/ mark_op m (u_par u) o).
      { destruct SHAPE as [E|(o2 & M2 & E)]; rewrite E in Ho; cbn [In] in Ho.
        - destruct Ho as [<-|[]]. left; exact M1.
        - destruct Ho as [<-|[<-|[]]]; [left; exact M1| right; exact M2]. }
      destruct Hmark as [(z & ->)|(z & ->)]; do 4 eexists; (split; [reflexivity|]).
      - unfold WRITE_EXT_STATUS_OFFSET, DATA_REGION_OFFSET in *. lia.
      - destruct (Nat.eq_dec (u_fw u) (u_par u)) as [E|NE].
        + rewrite <- E. unfold WRITE_EXT_STATUS_OFFSET, DATA_REGION_OFFSET in *. lia.
        + pose proof (base_disjoint m (u_fw u) (u_par u) NE) as DJ. unfold WRITE_EXT_STATUS_OFFSET, DATA_REGION_OFFSET in *. lia. }
    split; [exact OUT|]. intros _.
    (* the CRC routine accepted the region before the first mark *)
    destruct (load_header_keeps m (u_fw u) d d1 _ F LH) as [K1 M1'].
    destruct (crc_valid_on_flash m (u_fw u) h d1 len ltac:(rewrite M1'; exact W) (k_fail _ _ K1) Hs Hc Hm L68 Lfit ltac:(rewrite (k_tot _ _ K1); exact Hdev)) as (d2 & E2 & _).
    rewrite E2 in CV. cbn [snd] in CV.
    destruct (Crc.crc_valid (region d1 m (u_fw u) len) (N.to_nat (Slots.hsize h)) (N.to_nat (Slots.hcount h))) eqn:CR; [|discriminate].
    rewrite <- CR. f_equal. unfold region. cbn [with_mem dmem]. rewrite M1'. apply map_ext_in. intros j Hj. apply in_seq in Hj.
    apply OUT. lia.
Qed.

Print Assumptions final_mark_crash_safe.
