(* The reconstructor (parity-reconstruct/src/lib.rs) written once over a storage interface whose
   operations may FAIL: a failed operation leaves the store as the instance says (the abstract and the
   flash instances both leave the medium unchanged) and the error is propagated at once, exactly like
   the `?` of the Rust code - so the in-memory bookkeeping keeps whatever was assigned before the failing
   await.  This is the executable model used by the `recon` and `session` correspondence streams;
   MReconSim.v relates its fault-free runs to Recon.v / GRecon.v, on which the theorems are proved. *)
From Coq Require Import List NArith Arith Bool.
Import ListNotations.
Open Scope N_scope.

Record msto (St : Type) := {
  m_dget : St -> nat -> St * option N;  m_dput : St -> nat -> N -> St * bool;
  m_pget : St -> nat -> St * option N;  m_pput : St -> nat -> N -> St * bool;
  m_mget : St -> nat -> St * option N;  m_mput : St -> nat -> N -> St * bool }.
Arguments m_dget {St}. Arguments m_dput {St}. Arguments m_pget {St}. Arguments m_pput {St}.
Arguments m_mget {St}. Arguments m_mput {St}.

Inductive result := NeedMore | TooManyMissing | Done (len : N).
Inductive outcome := Ok (r : result) | StorageError.

(* ReconstructorData *)
Record rdata := mkr { n : nat; l : nat; bs : N; done : nat -> bool; used : nat -> bool }.

Definition upd {A} (f : nat -> A) (k : nat) (v : A) : nat -> A := fun i => if Nat.eqb i k then v else f i.
Definition bit (r : N) (i : nat) : bool := N.testbit r (N.of_nat i).

Definition unknowns (s : rdata) : list nat := filter (fun i => negb (done s i)) (seq 0 (n s)).
Definition missing (s : rdata) : nat := length (unknowns s).
Definition unk (s : rdata) (j : nat) : nat := nth j (unknowns s) 0%nat.
Definition is_complete (s : rdata) : bool :=
  if Nat.eqb (l s) 0 then forallb (done s) (seq 0 (n s)) else forallb (used s) (seq 0 (l s)).
Definition done_len (s : rdata) : N := N.of_nat (n s) * bs s.
Definition project (s : rdata) (r : N) : N :=
  fst (fold_left (fun '(acc, j) i => (if bit r i then N.setbit acc (N.of_nat j) else acc, S j)) (unknowns s) (0, 0%nat)).

Section M.
Context {St : Type} (I : msto St).

(* remove the known blocks from the incoming block: None = a storage read failed *)
Fixpoint strip (s : rdata) (r : N) (is : list nat) (c : St) (d : N) : St * option N :=
  match is with
  | [] => (c, Some d)
  | i :: tl =>
      if bit r i && done s i then
        match m_dget I c i with
        | (c1, Some v) => strip s r tl c1 (N.lxor d v)
        | (c1, None) => (c1, None)
        end
      else strip s r tl c d
  end.

(* eliminate from the working head downwards; returns the bookkeeping, the store and success *)
Fixpoint elim (s : rdata) (wh : nat) (r d : N) (c : St) : rdata * St * bool :=
  if bit r wh then
    if used s wh then
      match m_pget I c wh with
      | (c1, None) => (s, c1, false)
      | (c1, Some pv) =>
          match m_mget I c1 wh with
          | (c2, None) => (s, c2, false)
          | (c2, Some rv) =>
              match wh with O => (s, c2, true) | S k => elim s k (N.lxor r rv) (N.lxor d pv) c2 end
          end
      end
    else
      match m_pput I c wh d with
      | (c1, false) => (s, c1, false)
      | (c1, true) =>
          match m_mput I c1 wh r with
          | (c2, false) => (s, c2, false)
          | (c2, true) => (mkr (n s) (l s) (bs s) (done s) (upd (used s) wh true), c2, true)
          end
      end
  else match wh with O => (s, c, true) | S k => elim s k r d c end.

(* XOR of the already reconstructed blocks selected by a pivot row; [us] = unknowns s (reduced_to_full = nth _ us) *)
Fixpoint frow (us : list nat) (r : N) (js : list nat) (c : St) (o : N) : St * option N :=
  match js with
  | [] => (c, Some o)
  | j :: tl =>
      if bit r j then
        match m_dget I c (nth j us 0%nat) with
        | (c1, Some v) => frow us r tl c1 (N.lxor o v)
        | (c1, None) => (c1, None)
        end
      else frow us r tl c o
  end.

Definition finish_row (us : list nat) (i : nat) (c : St) : St * bool :=
  match m_pget I c i with
  | (c1, None) => (c1, false)
  | (c1, Some p) =>
      match m_mget I c1 i with
      | (c2, None) => (c2, false)
      | (c2, Some r) =>
          match frow us r (seq 0 i) c2 p with
          | (c3, None) => (c3, false)
          | (c3, Some out) => m_dput I c3 (nth i us 0%nat) out
          end
      end
  end.

Fixpoint finish (us : list nat) (is : list nat) (c : St) : St * bool :=
  match is with
  | [] => (c, true)
  | i :: tl => match finish_row us i c with (c1, true) => finish us tl c1 | (c1, false) => (c1, false) end
  end.

(* [cap] = MatrixStorage::num_rows(), [vbits] = BitArray::<V>::len() *)
Definition handle_block (P : nat -> N) (cap vbits : nat) (s : rdata) (c : St) (idx : nat) (b : N)
  : rdata * St * outcome :=
  if is_complete s then (s, c, Ok (Done (done_len s))) else
  let enter := Nat.leb (n s) idx && Nat.eqb (l s) 0 in
  let l2 := if enter then missing s else l s in
  if enter && (Nat.ltb vbits l2 || Nat.ltb cap l2) then (s, c, Ok TooManyMissing) else
  let s1 := mkr (n s) l2 (bs s) (done s) (used s) in
  if Nat.eqb (l s1) 0 then
    if done s1 idx then (s1, c, Ok (if is_complete s1 then Done (done_len s1) else NeedMore))
    else match m_dput I c idx b with
         | (c1, false) => (s1, c1, StorageError)
         | (c1, true) =>
             let s2 := mkr (n s1) (l s1) (bs s1) (upd (done s1) idx true) (used s1) in
             (s2, c1, Ok (if is_complete s2 then Done (done_len s2) else NeedMore))
         end
  else
    match strip s1 (P idx) (seq 0 (n s1)) c b with
    | (c1, None) => (s1, c1, StorageError)
    | (c1, Some d) =>
        match elim s1 (l s1 - 1) (project s1 (P idx)) d c1 with
        | (s2, c2, false) => (s2, c2, StorageError)
        | (s2, c2, true) =>
            if is_complete s2 then
              match finish (unknowns s2) (seq 0 (l s2)) c2 with
              | (c3, true) => (s2, c3, Ok (Done (done_len s2)))
              | (c3, false) => (s2, c3, StorageError)
              end
            else (s2, c2, Ok NeedMore)
        end
    end.
End M.

(* ---- instance 1: instrumented in-memory storages with a call log and one transient fault ---- *)
Inductive event :=
| EDataStore (i : nat) (b : N) | EDataGet (i : nat)
| EParStore (m : nat) (b : N)  | EParGet (m : nat)
| EMatSet (m : nat) (r : N)    | EMatGet (m : nat)
| EFail.                                       (* the operation that follows in program order failed *)

Record ast := mka { dat : nat -> option N; par : nat -> option N; mat : nat -> option N;
                    evs : list event;          (* newest first *)
                    opc : nat; fail_at : option nat }.
Definition getb (o : option N) : N := match o with Some b => b | None => 0 end.
Definition tick (a : ast) : bool * ast :=      (* does this operation fail? *)
  let f := match fail_at a with Some k => Nat.eqb k (opc a) | None => false end in
  (f, mka (dat a) (par a) (mat a) (evs a) (S (opc a)) (fail_at a)).
Definition alog (a : ast) (e : event) : ast := mka (dat a) (par a) (mat a) (e :: evs a) (opc a) (fail_at a).

Definition abs_sto : msto ast := {|
  m_dget := fun a i => let '(f, a1) := tick a in if f then (alog a1 EFail, None) else (alog a1 (EDataGet i), Some (getb (dat a1 i)));
  m_dput := fun a i b => let '(f, a1) := tick a in if f then (alog a1 EFail, false)
            else (mka (upd (dat a1) i (Some b)) (par a1) (mat a1) (EDataStore i b :: evs a1) (opc a1) (fail_at a1), true);
  m_pget := fun a k => let '(f, a1) := tick a in if f then (alog a1 EFail, None) else (alog a1 (EParGet k), Some (getb (par a1 k)));
  m_pput := fun a k b => let '(f, a1) := tick a in if f then (alog a1 EFail, false)
            else (mka (dat a1) (upd (par a1) k (Some b)) (mat a1) (EParStore k b :: evs a1) (opc a1) (fail_at a1), true);
  m_mget := fun a k => let '(f, a1) := tick a in if f then (alog a1 EFail, None) else (alog a1 (EMatGet k), Some (getb (mat a1 k)));
  m_mput := fun a k r => let '(f, a1) := tick a in if f then (alog a1 EFail, false)
            else (mka (dat a1) (par a1) (upd (mat a1) k (Some r)) (EMatSet k r :: evs a1) (opc a1) (fail_at a1), true) |}.

Definition ainit (fail : option nat) : ast := mka (fun _ => None) (fun _ => None) (fun _ => None) [] 0 fail.
Definition rinit (n0 : nat) (bs0 : N) : rdata := mkr n0 0 bs0 (fun _ => false) (fun _ => false).

(* per call: the outcome and the number of log entries so far (so that the log can be cut per call) *)
Fixpoint arun (P : nat -> N) (cap vbits : nat) (s : rdata) (a : ast) (bl : list (nat * N)) : rdata * ast * list (outcome * nat) :=
  match bl with
  | [] => (s, a, [])
  | (i, b) :: tl =>
      let '(s1, a1, r) := handle_block abs_sto P cap vbits s a i b in
      let '(s2, a2, rs) := arun P cap vbits s1 a1 tl in (s2, a2, (r, length (evs a1)) :: rs)
  end.

(* driver-facing entry point: the matrix is an association list above n, the identity below *)
Definition matrix_of (n0 : nat) (tbl : list (nat * N)) (m : nat) : N :=
  if Nat.ltb m n0 then N.shiftl 1 (N.of_nat m)
  else match find (fun p => Nat.eqb (fst p) m) tbl with Some p => snd p | None => 0 end.

Definition run_case (n0 cap vbits : nat) (bs0 : N) (fail : option nat) (tbl : list (nat * N)) (blocks : list (nat * N))
  : list (outcome * nat) * list event * list (option N) * (list bool * list bool * nat) :=
  let '(s, a, rs) := arun (matrix_of n0 tbl) cap vbits (rinit n0 bs0) (ainit fail) blocks in
  (rs, rev (evs a), map (dat a) (seq 0 n0), (map (done s) (seq 0 n0), map (used s) (seq 0 cap), l s)).
