(* Byte-level executable model of the deprecated manager (original-flash-algo): ring.rs (get_ordered_headers, get_two_newest,
   get_next_seq_no), manager.rs (start, app_boot_status, bl_boot_status, cancel).  The fragment path is V1.v with orig = true.
   The slot to overwrite and the next sequence number are OrigRing.find_oldest (on which C20's ring theorems are proved)
   applied to the sequence numbers parsed from flash. *)
From Coq Require Import List NArith Arith Bool.
Require Import Consts Nor Geom Layout Mgr V1 OrigRing.
Require Slots Recover Boot.
Import ListNotations.
Open Scope N_scope.

Definition seqs_of (hs : list (option Slots.hdr)) : nat -> option N := fun i => option_map Slots.hseq (nth i hs None).

(* rotation index of get_ordered_headers; None + some header present = the `assert!(all_none)` panic *)
Definition ordered_idx (nn : nat) (hs : list (option Slots.hdr)) : res (list nat) :=
  match oldest_index nn (seqs_of hs) with
  | Some oi => ROk (map (fun k => ((oi + k) mod nn)%nat) (List.seq 0 nn))
  | None => if forallb (fun o => match o with None => true | Some _ => false end) hs then ROk (List.seq 0 nn) else RPanic
  end.

Definition orig_reasonably_sized (m : mgr) (sz n : N) : option merr :=
  let mds := m_size m - HEADER_SIZE - MAX_SEGMENTS in
  if 4294967295 <? mds then Some MSegmentsTooLarge
  else if 4294967295 <? sz * n then Some MSegmentsTooLarge
  else if mds <? sz * n then Some MSegmentsTooLarge else None.

Definition hdr_value (kind seq sz cnt : N) : N :=
  kind + seq * 2 ^ 32 + sz * 2 ^ 64 + cnt * 2 ^ 96 + EXT_IN_PROGRESS * 2 ^ 128 + INT_IN_PROGRESS * 2 ^ 160 + BOOT_UNTESTED * 2 ^ 192.

(* one round of start: find the oldest slot, erase it, write a whole header *)
Definition orig_alloc_one (m : mgr) (kind sz cnt : N) (d : dev) : dev * res nat :=
  match load_headers m d with
  | (d1, None) => (d1, RErr (last_err d1))
  | (d1, Some hs) =>
      match ordered_idx (m_slots m) hs with
      | RPanic => (d1, RPanic) | RErr e => (d1, RErr e)
      | ROk _ =>
          let '(slot, nxt) := find_oldest (m_slots m) (seqs_of hs) in
          match clear m slot d1 with
          | (d2, RErr e) => (d2, RErr e) | (d2, RPanic) => (d2, RPanic)
          | (d2, ROk _) =>
              match d_prog d2 (base m slot) SLOT_HEADER_SIZE (hdr_value kind nxt sz cnt) with
              | (d3, true) => (d3, ROk slot) | (d3, false) => (d3, RErr (last_err d3)) end
          end
      end
  end.

Definition orig_start (m : mgr) (sz n : N) (d : dev) : dev * res v1 :=
  match orig_reasonably_sized m sz n with
  | Some e => (d, RErr e)
  | None =>
      match orig_alloc_one m KIND_FIRMWARE sz n d with
      | (d1, RErr e) => (d1, RErr e) | (d1, RPanic) => (d1, RPanic)
      | (d1, ROk f) =>
          match orig_alloc_one m KIND_PARITY sz MAX_SEGMENTS d1 with
          | (d2, RErr e) => (d2, RErr e) | (d2, RPanic) => (d2, RPanic)
          | (d2, ROk p) => (d2, ROk (mkv1 f p sz n n MAX_SEGMENTS MAX_SEGMENTS None None))
          end
      end
  end.

(* get_two_newest over the ordered list: newest = last parseable entry, older = the entry just before it (must parse) *)
Fixpoint two_newest_rev (l : list (nat * option Slots.hdr)) : option ((nat * Slots.hdr) * (nat * Slots.hdr)) :=
  match l with
  | [] => None
  | (i, Some h) :: tl => match tl with (j, Some h') :: _ => Some ((j, h'), (i, h)) | _ => None end
  | (_, None) :: tl => two_newest_rev tl
  end.

Fixpoint cancel_ordered (m : mgr) (l : list (nat * option Slots.hdr)) (d : dev) : dev * res unit :=
  match l with
  | [] => (d, ROk tt)
  | (i, Some h) :: tl => if Recover.ext_inprogress h then match mark m i KAbort d with (d1, ROk _) => cancel_ordered m tl d1 | r => r end
                         else cancel_ordered m tl d
  | (_, None) :: tl => cancel_ordered m tl d
  end.

Fixpoint remediate_ordered (m : mgr) (k1 k2 : nat) (l : list (nat * option Slots.hdr)) (d : dev) : dev * res unit :=
  match l with
  | [] => (d, ROk tt)
  | (i, o) :: tl =>
      if Nat.eqb i k1 || Nat.eqb i k2 then remediate_ordered m k1 k2 tl d else
      match o with
      | None => remediate_ordered m k1 k2 tl d
      | Some h =>
          match Slots.total_status h with
          | Slots.AppWriteInProgress => match mark m i KAbort d with (d1, ROk _) => remediate_ordered m k1 k2 tl d1 | r => r end
          | Slots.BootloadWriteInProgress | Slots.InvalidNeedsErase => match clear m i d with (d1, ROk _) => remediate_ordered m k1 k2 tl d1 | r => r end
          | _ => remediate_ordered m k1 k2 tl d
          end
      end
  end.

Definition orig_app_boot_status (m : mgr) (d : dev) : dev * res (option v1) :=
  match load_headers m d with
  | (d1, None) => (d1, RErr (last_err d1))
  | (d1, Some hs) =>
      match ordered_idx (m_slots m) hs with
      | RPanic => (d1, RPanic) | RErr e => (d1, RErr e)
      | ROk idxs =>
          let ord := map (fun i => (i, nth i hs None)) idxs in
          let cancel (d0 : dev) := match cancel_ordered m ord d0 with (d', ROk _) => (d', ROk None) | (d', RErr e) => (d', RErr e) | (d', RPanic) => (d', RPanic) end in
          match two_newest_rev (rev ord) with
          | None => cancel d1
          | Some ((fi, fh), (pi, ph)) =>
              match orig_reasonably_sized m (Slots.hsize fh) (Slots.hcount fh) with
              | Some e => (d1, RErr e)
              | None =>
                  if Recover.is_awip fh && Recover.kind_is_fw fh && Recover.is_awip ph && negb (Recover.kind_is_fw ph) && (Slots.hsize fh =? Slots.hsize ph) then
                    match remediate_ordered m fi pi ord d1 with
                    | (d2, RErr e) => (d2, RErr e) | (d2, RPanic) => (d2, RPanic)
                    | (d2, ROk _) =>
                        match load_table m (S (N.to_nat (Slots.hcount fh / 128))) fi 0 (Slots.hcount fh) [] d2 with
                        | (d3, None) => cancel d3
                        | (d3, Some hf) =>
                            match load_table m (S (N.to_nat (Slots.hcount ph / 128))) pi 0 (Slots.hcount ph) [] d3 with
                            | (d4, None) => cancel d4
                            | (d4, Some hp) =>
                                (d4, ROk (Some (mkv1 fi pi (Slots.hsize fh) (Slots.hcount fh) (Slots.hcount fh - N.of_nat (length hf))
                                                     (Slots.hcount ph) (Slots.hcount ph - N.of_nat (length hp)) None None)))
                            end
                        end
                    end
                  else cancel d1
              end
          end
      end
  end.

Definition orig_bl_boot_status (m : mgr) (d : dev) : dev * res Boot.blstatus :=
  match load_headers m d with
  | (d1, None) => (d1, RErr (last_err d1))
  | (d1, Some hs) =>
      match ordered_idx (m_slots m) hs with
      | RPanic => (d1, RPanic) | RErr e => (d1, RErr e)
      | ROk idxs =>
          let ord := map (fun i => (i, nth i hs None)) idxs in
          match two_newest_rev (rev ord) with
          | Some ((fi, fh), (pi, ph)) =>
              if Recover.kind_is_fw fh && negb (Recover.kind_is_fw ph) then
                match Slots.total_status fh with
                | Slots.BootloadWriteInProgress => (d1, ROk (Boot.IncompleteInternal fi))
                | Slots.FirstBootPendingAck => (d1, ROk (Boot.FailedLoad fi))
                | _ => (d1, ROk Boot.Idle)
                end
              else (d1, ROk Boot.Idle)
          | None => (d1, ROk Boot.Idle)
          end
      end
  end.

Definition orig_cancel (m : mgr) (d : dev) : dev * res unit :=
  match load_headers m d with
  | (d1, None) => (d1, RErr (last_err d1))
  | (d1, Some hs) =>
      match ordered_idx (m_slots m) hs with
      | RPanic => (d1, RPanic) | RErr e => (d1, RErr e)
      | ROk idxs => cancel_ordered m (map (fun i => (i, nth i hs None)) idxs) d1
      end
  end.
