(* Further facts about the TS004 generators (C10). *)
From Coq Require Import List NArith Arith Bool Lia.
Require Import Lfdbt.
Import ListNotations.
Open Scope N_scope.

Theorem impl_new_full_eq_spec fuel cn cm : cn <= 16383 -> impl_new_full fuel cn cm = matrix_line_full fuel cn cm.
Proof.
  intros H. unfold impl_new_full, matrix_line_full, u32. rewrite N.shiftr_div_pow2. change (2 ^ 1) with 2.
  rewrite (N.mod_small (1001 * cn)) by lia. reflexivity.
Qed.

(* the no-redundancy fill returns exactly k NEW distinct positions, all in range *)
Lemma full_fill_spec : forall fuel k x M md acc l, NoDup acc -> Forall (fun r => r < M) acc ->
  full_fill fuel k x M md acc = Some l -> NoDup l /\ length l = (k + length acc)%nat /\ Forall (fun r => r < M) l.
Proof.
  induction fuel as [|f IH]; intros k x M md acc l ND FA H; cbn [full_fill] in H; [discriminate|].
  destruct k as [|k'].
  - inversion H; subst. auto.
  - destruct (draw (S f) x M md) as [[x' r]|] eqn:D; [|discriminate].
    pose proof (draw_range _ _ _ _ _ _ D) as Hr.
    destruct (existsb (N.eqb r) acc) eqn:E.
    + apply (IH (S k') x' M md acc l ND FA H).
    + destruct (IH k' x' M md (r :: acc) l) as (A & B & C); try assumption.
      * constructor; [|exact ND]. intros Hin. assert (existsb (N.eqb r) acc = true) by (apply existsb_exists; exists r; split; [exact Hin| apply N.eqb_refl]). congruence.
      * constructor; assumption.
      * split; [exact A|]. split; [|exact C]. rewrite B. cbn [length]. lia.
Qed.

(* with force-full-r a row holds exactly floor(M/2) distinct fragments, none >= M *)
Theorem full_r_weight fuel n M l : matrix_line_full fuel n M = Some l ->
  NoDup l /\ length l = N.to_nat (M / 2) /\ Forall (fun r => r < M) l.
Proof.
  intros H. unfold matrix_line_full in H. destruct (full_fill_spec _ _ _ _ _ [] l (NoDup_nil _) (Forall_nil _) H) as (A & B & C).
  split; [exact A|]. split; [|exact C]. rewrite B. cbn [length]. lia.
Qed.

(* bit i of the mask is set iff fragment i was drawn: the row as the reconstructor sees it *)
Lemma mask_spec : forall l acc i, N.testbit (fold_left (fun acc r => N.lor acc (N.shiftl 1 r)) l acc) i = N.testbit acc i || existsb (N.eqb i) l.
Proof.
  induction l as [|r l IH]; intros acc i; cbn [fold_left existsb]; [now rewrite orb_false_r|].
  rewrite IH, N.lor_spec. rewrite N.shiftl_1_l, N.pow2_bits_eqb. rewrite (N.eqb_sym r i). now rewrite orb_assoc.
Qed.
Theorem mask_testbit l i : N.testbit (mask l) i = existsb (N.eqb i) l.
Proof. unfold mask. rewrite mask_spec, N.bits_0. reflexivity. Qed.

(* rows never address a fragment >= M: every excess bit of the mask is false (the trait contract of ParityMatrix) *)
Theorem mask_in_range fuel n M l i : matrix_line fuel n M = Some l -> M <= i -> N.testbit (mask l) i = false.
Proof.
  intros H Hi. rewrite mask_testbit. apply not_true_is_false. intros E. apply existsb_exists in E. destruct E as (r & Hin & Er).
  apply N.eqb_eq in Er. subst r. pose proof (row_in_range _ _ _ _ H) as F. rewrite Forall_forall in F. specialize (F i Hin). lia.
Qed.
