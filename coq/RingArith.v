From Coq Require Import List NArith ZArith Arith Bool Lia.
Require Import Slots SlotsProof RingA Exact RingB.
Import ListNotations.
Open Scope Z_scope.

Section RA.
Variable sl : slots.
Variable k : Z.
Hypothesis H1 : forall i s, seqat sl i = Some s -> (Z.of_N s + k) mod Z.of_nat (length sl) = Z.of_nat i.
Hypothesis H2 : forall i j si sj, seqat sl i = Some si -> seqat sl j = Some sj -> Z.of_N si - Z.of_N sj < Z.of_nat (length sl).
Variables (hi : nat) (hh : hdr).
Hypothesis EH : high_of sl = Some (hi, hh).
Hypothesis HN : (3 <= length sl)%nat.
Notation n := (length sl).
Notation hs := (hseq hh).

Lemma top_facts : seqat sl hi = Some hs /\ (hi < n)%nat /\ (forall x s, seqat sl x = Some s -> (s <= hs)%N /\ Z.of_N hs - Z.of_nat n < Z.of_N s).
Proof.
  destruct (high_exact sl k hi hh H1 EH) as (Shi & Lhi & OTH). split; [exact Shi|]. split; [exact Lhi|].
  intros x s Sx. pose proof (H2 hi x _ _ Shi Sx). destruct (Nat.eq_dec x hi) as [->|NE].
  - rewrite Shi in Sx. inversion Sx; subst. lia.
  - destruct (OTH x s NE Sx). lia.
Qed.

(* slot (hi + j) mod n  <->  sequence number hs - n + j, for 0 < j < n *)
Lemma seq_of_slot j x s : (0 < j < n)%nat -> x = ((hi + j) mod n)%nat -> seqat sl x = Some s -> Z.of_N s = Z.of_N hs - Z.of_nat n + Z.of_nat j.
Proof.
  intros Hj -> Sx. destruct top_facts as (Shi & Lhi & W). destruct (W _ _ Sx) as [Le Lo].
  pose proof (H1 _ _ Sx) as Mx. pose proof (H1 _ _ Shi) as Mh.
  assert (P : (Z.of_N hs + k + Z.of_nat j) mod Z.of_nat n = Z.of_nat ((hi + j) mod n)) by (apply mod_of_nat_add; [lia| exact Mh]).
  assert (Q : (Z.of_N hs + k + Z.of_nat j - (Z.of_N s + k)) mod Z.of_nat n = 0) by (rewrite Zminus_mod, P, Mx, Z.sub_diag; apply Z.mod_0_l; lia).
  replace (Z.of_N hs + k + Z.of_nat j - (Z.of_N s + k)) with (Z.of_N hs - Z.of_N s + Z.of_nat j) in Q by lia.
  (* 0 < hs - s + j < 2n, divisible by n, hence = n *)
  assert (R : exists m, Z.of_N hs - Z.of_N s + Z.of_nat j = m * Z.of_nat n) by (apply Z.mod_divide in Q; [destruct Q as [m Q]; exists m; exact Q| lia]).
  destruct R as [m R]. assert (m = 1) by nia. subst m. lia.
Qed.

Lemma slot_of_seq j x s : (0 < j < n)%nat -> seqat sl x = Some s -> Z.of_N s = Z.of_N hs - Z.of_nat n + Z.of_nat j -> x = ((hi + j) mod n)%nat.
Proof.
  intros Hj Sx Es. destruct top_facts as (Shi & Lhi & W). pose proof (H1 _ _ Sx) as Mx. pose proof (H1 _ _ Shi) as Mh.
  assert (P : (Z.of_N hs + k + Z.of_nat j) mod Z.of_nat n = Z.of_nat ((hi + j) mod n)) by (apply mod_of_nat_add; [lia| exact Mh]).
  apply Nat2Z.inj. rewrite <- P, <- Mx. replace (Z.of_N hs + k + Z.of_nat j) with (Z.of_N s + k + 1 * Z.of_nat n) by lia. now rewrite Z_mod_plus_full.
Qed.

(* the successor number sits in the next slot *)
Lemma next_slot x y s t : seqat sl x = Some s -> seqat sl y = Some t -> t = (s + 1)%N -> y = ((x + 1) mod n)%nat.
Proof.
  intros Sx Sy ->. pose proof (H1 _ _ Sx) as Mx. pose proof (H1 _ _ Sy) as My.
  apply Nat2Z.inj. rewrite <- My. rewrite N2Z.inj_add. replace (Z.of_N s + Z.of_N 1 + k) with (Z.of_N s + k + Z.of_nat 1) by lia. apply mod_of_nat_add; [lia| exact Mx].
Qed.
End RA.

Lemma d_full hi n : (2 <= n)%nat -> (hi < n)%nat -> ((hi + n - (hi + 1) mod n) mod n = n - 1)%nat.
Proof.
  intros Hn Hh. destruct (Nat.eq_dec (hi + 1) n) as [E|NE].
  - rewrite E, Nat.mod_same by lia. replace (hi + n - 0)%nat with (hi + 1 * n)%nat by lia. rewrite Nat.mod_add by lia. rewrite Nat.mod_small by lia. lia.
  - rewrite (Nat.mod_small (hi + 1)) by lia. replace (hi + n - (hi + 1))%nat with (n - 1)%nat by lia. apply Nat.mod_small. lia.
Qed.
Lemma succ_mod hi n j : (0 < n)%nat -> (((hi + j) mod n + 1) mod n = (hi + (j + 1)) mod n)%nat.
Proof. intros Hn. rewrite Nat.add_mod_idemp_l by lia. f_equal. lia. Qed.
Lemma pred_succ_mod hi n : (2 <= n)%nat -> (hi < n)%nat -> (((hi + n - 1) mod n + 1) mod n = hi)%nat.
Proof.
  intros Hn Hh. rewrite Nat.add_mod_idemp_l by lia. replace (hi + n - 1 + 1)%nat with (hi + 1 * n)%nat by lia. rewrite Nat.mod_add by lia. apply Nat.mod_small; lia.
Qed.
