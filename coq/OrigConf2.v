(* C20, third clause at the level of a whole call of the deprecated manager: write_segment followed by the documented driver loop
   (repair_step until None) - V1.v1_handle with orig = true - erases nothing and programs only inside the session's two slots,
   for every state, fragment, device state and armed fault; the slots of the session never change. *)
From Coq Require Import List NArith Arith Bool Lia.
Require Import Consts Nor Geom MRecon Mgr MgrP V1 Confine OrigConf.
Import ListNotations.
Open Scope N_scope.

Definition prog_pair (m : mgr) (u : v1) (e : fop) : Prop := prog_in m (v_fw u) e \/ prog_in m (v_par u) e.
Definition same_ids (u u' : v1) : Prop := v_fw u' = v_fw u /\ v_par u' = v_par u.

Lemma write_ids orig m u idx1 payload plen rlen d : same_ids u (snd (fst (v1_write orig m u idx1 payload plen rlen d))).
Proof.
  unfold v1_write, same_ids.
  repeat (match goal with
          | |- context [if ?c then _ else _] => destruct c
          | |- context [match ?x with _ => _ end] => destruct x
          end; cbn [fst snd v_fw v_par]; try (split; reflexivity)).
Qed.

Lemma load_table_log m : forall fuel slot pos remain acc d,
  dlog (fst (load_table m fuel slot pos remain acc d)) = dlog d.
Proof.
  induction fuel as [|f IH]; intros slot pos remain acc d; cbn [load_table]; [reflexivity|].
  destruct (remain =? 0); [reflexivity|].
  match goal with |- context [d_read ?dd ?aa ?ll] => pose proof (d_read_log dd aa ll) as [RL _]; destruct (d_read dd aa ll) as [d1 [v|]] end;
    cbn [fst] in *; [|exact RL].
  destruct (status_list _ _ _); [rewrite IH; exact RL| cbn; exact RL].
Qed.

Lemma xor_blocks_log m u row : forall is skip acc d, dlog (fst (xor_blocks true m u row is skip acc d)) = dlog d.
Proof.
  induction is as [|i tl IH]; intros skip acc d; cbn [xor_blocks]; [reflexivity|].
  destruct (_ || _); [apply IH|].
  match goal with |- context [d_read ?dd ?aa ?ll] => pose proof (d_read_log dd aa ll) as [RL _]; destruct (d_read dd aa ll) as [d1 [v|]] end;
    cbn [fst] in *; [rewrite IH; exact RL| exact RL].
Qed.

Lemma write_pair m u idx1 payload plen rlen d :
  exists news, dlog (fst (fst (v1_write true m u idx1 payload plen rlen d))) = news ++ dlog d /\ Forall (prog_pair m u) news.
Proof.
  pose proof (orig_write_in_slot m u idx1 payload plen rlen d) as H.
  destruct (v1_write true m u idx1 payload plen rlen d) as [[d' u'] r]. destruct H as (news & E & _ & F). cbn [fst].
  exists news. split; [exact E|]. eapply Forall_impl; [|exact F]. intros e He. unfold prog_pair, frag_slot in *.
  destruct (idx1 <=? v_tf u); [left|right]; exact He.
Qed.

Lemma repair_step_pair ffr m u d :
  let '(d', u', _) := v1_repair_step true ffr m u d in
  (exists news, dlog d' = news ++ dlog d /\ Forall (prog_pair m u) news) /\ same_ids u u'.
Proof.
  unfold v1_repair_step.
  assert (ID : same_ids u u) by (split; reflexivity).
  assert (NIL : forall d', dlog d' = dlog d -> exists news, dlog d' = news ++ dlog d /\ Forall (prog_pair m u) news)
    by (intros d' E; exists []; split; [exact E| constructor]).
  destruct (v_rf u =? 0); [split; auto|]. destruct (v_rp u =? v_tp u); [split; auto|].
  pose proof (load_table_log m (S (N.to_nat (v_tf u / 128))) (v_fw u) 0 (v_tf u) [] d) as L1.
  destruct (load_table m _ (v_fw u) 0 (v_tf u) [] d) as [d1 [hf|]]; cbn [fst] in L1; [|split; auto].
  pose proof (load_table_log m (S (N.to_nat (v_tp u / 128))) (v_par u) 0 (v_tp u) [] d1) as L2.
  destruct (load_table m _ (v_par u) 0 (v_tp u) [] d1) as [d2 [hp|]]; cbn [fst] in L2; [|split; auto; apply NIL; congruence].
  destruct (find_repair ffr u hf hp) as [[[p fwi] row]|]; [|split; auto; apply NIL; congruence].
  match goal with |- context [d_read ?dd ?aa ?ll] => pose proof (d_read_log dd aa ll) as [L3 _]; destruct (d_read dd aa ll) as [d3 [pv|]] end;
    cbn [fst] in L3; [|split; auto; apply NIL; congruence].
  pose proof (xor_blocks_log m u row (range_N (v_tf u)) fwi pv d3) as L4.
  destruct (xor_blocks true m u row (range_N (v_tf u)) fwi pv d3) as [d4 [out|]]; cbn [fst] in L4; [|split; auto; apply NIL; congruence].
  pose proof (write_pair m u (fwi + 1) out (v_sz u) (v_sz u) d4) as W.
  pose proof (write_ids true m u (fwi + 1) out (v_sz u) (v_sz u) d4) as I.
  destruct (v1_write true m u (fwi + 1) out (v_sz u) (v_sz u) d4) as [[d5 u5] r]; cbn [fst snd] in W, I.
  assert (E45 : dlog d4 = dlog d) by congruence. rewrite E45 in W.
  destruct r; split; auto.
Qed.

Lemma pair_ids m u u' e : same_ids u u' -> prog_pair m u' e -> prog_pair m u e.
Proof. intros [A B]. unfold prog_pair. rewrite A, B. auto. Qed.

Lemma repair_loop_pair ffr m : forall fuel u d,
  let '(d', u', _) := repair_loop true ffr m fuel u d in
  (exists news, dlog d' = news ++ dlog d /\ Forall (prog_pair m u) news) /\ same_ids u u'.
Proof.
  induction fuel as [|f IH]; intros u d; cbn [repair_loop].
  { split; [exists []; split; [reflexivity| constructor]| split; reflexivity]. }
  pose proof (repair_step_pair ffr m u d) as S1.
  destruct (v1_repair_step true ffr m u d) as [[d1 u1] r]. destruct S1 as [(n1 & E1 & F1) I1].
  destruct r as [[fwi|]|e|]; try (split; [exists n1; split; assumption| exact I1]).
  specialize (IH u1 d1). destruct (repair_loop true ffr m f u1 d1) as [[d2 u2] r2]. destruct IH as [(n2 & E2 & F2) I2].
  split.
  - exists (n2 ++ n1). split; [rewrite E2, E1, app_assoc; reflexivity|]. apply Forall_app. split; [|exact F1].
    eapply Forall_impl; [|exact F2]. intros e. apply pair_ids. exact I1.
  - destruct I1, I2. split; congruence.
Qed.

Theorem orig_handle_in_pair ffr m u idx1 payload plen d :
  let '(d', u', _) := v1_handle true ffr m u idx1 payload plen d in
  (exists news, dlog d' = news ++ dlog d /\ Forall (prog_pair m u) news) /\ same_ids u u'.
Proof.
  unfold v1_handle.
  pose proof (write_pair m u idx1 payload plen MAX_SEGMENT_SIZE d) as W.
  pose proof (write_ids true m u idx1 payload plen MAX_SEGMENT_SIZE d) as I.
  destruct (v1_write true m u idx1 payload plen MAX_SEGMENT_SIZE d) as [[d1 u1] r]; cbn [fst snd] in W, I.
  destruct W as (n1 & E1 & F1).
  destruct r as [[| |]|e|]; try (split; [exists n1; split; assumption| exact I]).
  pose proof (repair_loop_pair ffr m (S (N.to_nat (v_tf u1))) u1 d1) as R.
  destruct (repair_loop true ffr m (S (N.to_nat (v_tf u1))) u1 d1) as [[d2 u2] r2]. destruct R as [(n2 & E2 & F2) I2].
  assert (G : (exists news, dlog d2 = news ++ dlog d /\ Forall (prog_pair m u) news) /\ same_ids u u2).
  { split.
    - exists (n2 ++ n1). split; [rewrite E2, E1, app_assoc; reflexivity|]. apply Forall_app. split; [|exact F1].
      eapply Forall_impl; [|exact F2]. intros e0. apply pair_ids. exact I.
    - destruct I, I2. split; congruence. }
  destruct r2; exact G.
Qed.
