(* C09 - The reconstructor honours the write-once storage contracts. Pinned statements only. *)
From Coq Require Import List NArith.
Require Import Recon ReconProof Stmts Span Trace.
Import ListNotations.
Open Scope N_scope.

(* For every matrix (no contract needed), block count, block size, capacity <= V width and every block list
   (consistency with any data is not needed): the storage-call trace of the run passes the monitor [wf_trace]
   (Stmts.v): each data index < n stored at most once; each parity / matrix index < capacity stored at most once;
   a parity store is immediately followed by its matrix row; a stored row has its own bit set and none higher
   (N.log2 r = m, r <> 0); every get follows a store of that index. *)
Theorem c09_trace_wf : forall P nn cap vbits bs0 bl, (cap <= vbits)%nat ->
  wf_trace cap nn (snd (run P cap vbits (init nn bs0) bl)) = true.
Proof. exact trace_wf. Qed.

(* the monitor is not vacuous: it rejects a double store *)
Theorem c09_monitor_rejects : wf_trace 3 4 [EDataStore 0 1; EDataStore 0 1] = false.
Proof. exact mon_rejects. Qed.

Print Assumptions c09_trace_wf.
Print Assumptions c09_monitor_rejects.
