(* C06 - An interrupted update can be resumed to a correct completion. Pinned statements only.
   The proved part is the checkpoint argument at storage level; the two crash windows in which the on-flash state is NOT a
   sufficient checkpoint are recorded findings (KNOWN_FINDINGS.jsonl: c06-window-a, c06-window-b) and are reproduced on the
   implementation by every run of the check. *)
From Coq Require Import List NArith.
Require Import Nor Geom Store GRecon Sim Roundtrip.
Open Scope N_scope.

(* what recovery reads back (status bytes, diagonal bytes) is the durable bookkeeping at every fragment boundary *)
Theorem c06_recover_roundtrip : forall g sa sc, Pair g sa sc -> Good g sa 0 ->
  (forall i, (i < n sa)%nat -> rec_done g (store sc) i = done sa i) /\
  (forall k, N.of_nat k < capL g -> rec_used g (store sc) k = used sa k).
Proof. exact recover_roundtrip. Qed.

(* compatibility: a region is compatible with v when every bit it already holds as 0 is also 0 in v (erased regions, regions
   already holding v, every torn prefix of programming v).  Programming v over a compatible region reads back v ... *)
Theorem c06_read_program_compat : forall m a len v,
  compatible m a len v -> v < 2 ^ (8 * len) -> read (program m a len v) a len = v.
Proof. exact read_program_compat. Qed.

(* ... a torn program of v leaves the region compatible with v, and re-programming v is idempotent: this is why a data
   block interrupted by power loss is repaired by the re-sent (or reconstructed) fragment, which always equals the original *)
Theorem c06_torn_compatible : forall m m' a len v,
  compatible m a len v ->
  (forall x, a <= x < a + len -> N.land (m' x) (m x) = m' x /\ N.land (m' x) (byte_of v (x - a)) = byte_of v (x - a)) ->
  compatible m' a len v.
Proof. exact torn_compatible. Qed.
Theorem c06_program_idempotent : forall m a len v x, program (program m a len v) a len v x = program m a len v x.
Proof. exact program_idempotent. Qed.

Print Assumptions c06_recover_roundtrip.
Print Assumptions c06_read_program_compat.
Print Assumptions c06_torn_compatible.
Print Assumptions c06_program_idempotent.
