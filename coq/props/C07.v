(* C07 - A clean reboot between two fragments is transparent. Pinned statements only.
   Storage-interface level (GRecon.v / Sim.v): [sa] is the live session over abstract map storages, [sc] the same session
   over the flash-backed storages; [Pair] relates them (same bookkeeping, flash views = maps, unwritten regions erased). *)
From Coq Require Import List NArith.
Require Import Nor Geom Store GRecon Sim Roundtrip.
Import ListNotations.
Open Scope N_scope.

(* what recovery reads back from flash IS the live bookkeeping, at every fragment boundary of a crash-free run:
   done i := "status byte of fragment i is 0x33", used k := "diagonal byte of row k is not 0xFF" *)
Theorem c07_recover_roundtrip : forall g sa sc, Pair g sa sc -> Good g sa 0 ->
  (forall i, (i < n sa)%nat -> rec_done g (store sc) i = done sa i) /\
  (forall k, N.of_nat k < capL g -> rec_used g (store sc) k = used sa k).
Proof. exact recover_roundtrip. Qed.

(* ... and every call preserves the pairing (so it holds at every boundary), with equal results on both sides *)
Theorem c07_pairing_preserved : forall g (P : nat -> N) (cap vbits : nat) sa sc (idx : nat) (b : N),
  wfgeo g -> Pair g sa sc -> Next g sa -> (N.of_nat cap <= capL g) -> b < B g ->
  let ra := handle_block map_sto P cap vbits sa idx b in
  let rc := handle_block (flash_sto g) P cap vbits sc idx b in
  snd ra = snd rc /\ Pair g (fst ra) (fst rc) /\ Next g (fst ra) /\ n (fst ra) = n sa.
Proof. exact handle_block_sim. Qed.

Print Assumptions c07_recover_roundtrip.
Print Assumptions c07_pairing_preserved.
