(* C07 - A clean reboot between two fragments is transparent. Pinned statements only.
   Storage-interface level (GRecon.v / Sim.v): [sa] is the live session over abstract map storages, [sc] the same session
   over the flash-backed storages; [Pair] relates them (same bookkeeping, flash views = maps, unwritten regions erased). *)
From Coq Require Import List NArith.
Require Import Nor Geom Store GRecon Sim Roundtrip.
Require Mgr MRecon MgrSim StartSim RecLive Consts.
Import ListNotations.
Open Scope N_scope.

(* what recovery reads back from flash IS the live bookkeeping, at every fragment boundary of a crash-free run:
   done i := "status byte of fragment i is 0x33", used k := "diagonal byte of row k is not 0xFF" *)
Theorem c07_recover_roundtrip : forall g sa sc, Pair g sa sc -> Good g sa 0 ->
  (forall i, (i < n sa)%nat -> rec_done g (store sc) i = done sa i) /\
  (forall k, N.of_nat k < capL g -> rec_used g (store sc) k = used sa k).
Proof. exact recover_roundtrip. Qed.

(* ... and every call preserves the pairing (so it holds at every boundary), with equal results on both sides *)
Theorem c07_pairing_preserved : forall g (P : nat -> N) (cap vbits : nat) sa sc (idx : nat) (b : N),
  wfgeo g -> Pair g sa sc -> Next g sa -> (N.of_nat cap <= capL g) -> b < B g ->
  let ra := handle_block map_sto P cap vbits sa idx b in
  let rc := handle_block (flash_sto g) P cap vbits sc idx b in
  snd ra = snd rc /\ Pair g (fst ra) (fst rc) /\ Next g (fst ra) /\ n (fst ra) = n sa.
Proof. exact handle_block_sim. Qed.

(* The same on the EXECUTABLE byte-level model (Mgr.v, the functions compared with the implementation): after start_update and
   ANY list of handle_segment calls that all return Ok and leave the session incomplete (any indices, any bounded payloads -
   consistency with an image is not needed), on a device without an armed fault whose cells are bytes, the two loaders that
   try_recover_inner runs - the status-table scan in 256-byte strides and the one-byte probe of every matrix row's diagonal
   byte at  capacity * size + row offset(k) + k / 8  - return exactly the done / used bits of the live session and leave the
   medium unchanged. *)
Theorem c07_executable_loaders_read_live_state :
  forall m sz cnt (checked ffr : bool) segs d d1 u d' u' outs,
  (2 <= Mgr.m_slots m)%nat -> Mgr.m_size m - Consts.DATA_REGION_OFFSET < 4294967295 -> Mgr.dfail d = None -> wf (Mgr.dmem d) ->
  Mgr.start_update m sz cnt d = (d1, Mgr.ROk u) ->
  Forall (fun p => snd p < 2 ^ (8 * sz)) segs ->
  MgrSim.feed m checked ffr u d1 segs = Some (d', u', outs) ->
  MRecon.is_complete (Mgr.u_rd u') = false ->
  let g := MgrSim.geo_of m (Mgr.u_fw u) (Mgr.u_par u) sz cnt in
  (forall d2 dn, Mgr.load_status (S (N.to_nat (cnt / Consts.MAX_SEGMENT_SIZE))) m (Mgr.u_fw u) 0 cnt (fun _ => false) d' = (d2, Some dn) ->
     Mgr.dmem d2 = Mgr.dmem d' /\ forall i, (i < MRecon.n (Mgr.u_rd u'))%nat -> dn i = MRecon.done (Mgr.u_rd u') i) /\
  (forall d2 us, Mgr.load_used m (Mgr.u_par u) (capL g * sz) (seq 0 (Mgr.u_maxl u)) (fun _ => false) d' = (d2, Some us) ->
     Mgr.dmem d2 = Mgr.dmem d' /\ forall k, (k < Mgr.u_maxl u)%nat -> us k = MRecon.used (Mgr.u_rd u') k).
Proof. exact RecLive.recovery_loaders_read_live_state. Qed.

Print Assumptions c07_recover_roundtrip.
Print Assumptions c07_executable_loaders_read_live_state.
Print Assumptions c07_pairing_preserved.
