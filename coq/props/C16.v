(* C16 - Flash storage adapters round-trip blocks without disturbing neighbours. Pinned statements only.
   Proved for the data adapter (the one whose words are shared between neighbouring blocks); the parity and matrix adapters
   (own, padded slots) are covered by the adapters correspondence stream and its oracle only - named in the evidence. *)
From Coq Require Import List NArith Arith.
Require Import Adapters.
Require Adapt AdaptP.
Import ListNotations.
Open Scope N_scope.

(* for every write size W >= 1, block length L >= W, range start and index: the (up to) three word programs of
   FlashDataStorage::store - head word padded with 0xFF in front, aligned body, tail word padded with 0xFF behind - have
   EXACTLY the effect of programming the L block bytes in place at start + i * L: blocks are contiguous without padding
   and neighbours are untouched *)
Theorem c16_store_is_program : forall (W start : N) (L : nat), 1 <= W -> W <= N.of_nat L ->
  forall m i data, wf m -> length data = L ->
  forall x, store W start L m i data x = programl m (ts start L i) data x.
Proof. exact store_is_program. Qed.

(* read-back: on an erased block area the stored bytes are what the flash holds afterwards *)
Theorem c16_data_get_after_store : forall (W start : N) (L : nat), 1 <= W -> W <= N.of_nat L ->
  forall m i data k, wf m -> length data = L -> Forall (fun b => b < 256) data ->
  (forall x, ts start L i <= x < ts start L i + N.of_nat L -> m x = 255) -> (k < L)%nat ->
  store W start L m i data (ts start L i + N.of_nat k) = nth k data 255.
Proof. exact data_get_after_store. Qed.

(* frame: no byte outside the block's own range changes, whatever the store order *)
Theorem c16_data_frame : forall (W start : N) (L : nat), 1 <= W -> W <= N.of_nat L ->
  forall m i data x, wf m -> length data = L ->
  x < ts start L i \/ ts start L i + N.of_nat L <= x -> store W start L m i data x = m x.
Proof. exact data_frame. Qed.

(* the head and tail words never overlap and the three pieces add up to the block *)
Theorem c16_split_lens : forall (W start : N) (L : nat), 1 <= W -> W <= N.of_nat L -> forall i,
  (head_len W start L i + body_len W start L i + tail_len W start L i = L)%nat /\ (head_len W start L i + tail_len W start L i <= L)%nat.
Proof. exact split_lens. Qed.

(* the executable model compared with the implementation (Adapt.data_store, device with alignment and bounds checks)
   leaves exactly the memory of the proved model whenever it succeeds *)
Theorem c16_executable_is_store : forall start d i data d', 1 <= Adapt.wW d ->
  Adapt.data_store start d i data = (d', Adapt.AOk tt) ->
  forall x, Adapt.wm d' x = store (Adapt.wW d) start (length data) (Adapt.wm d) i data x.
Proof. exact AdaptP.data_store_is_store. Qed.

Print Assumptions c16_store_is_program.
Print Assumptions c16_data_get_after_store.
Print Assumptions c16_data_frame.
Print Assumptions c16_split_lens.
Print Assumptions c16_executable_is_store.
