(* C16 - Flash storage adapters round-trip blocks without disturbing neighbours. Pinned statements only.
   Proved: the data adapter in full (the one whose words are shared between neighbouring blocks); for the parity and matrix
   adapters (own, padded slots) the layout arithmetic and non-interference (back-to-back rows, disjoint slots, programs confined
   to the own slot, num_rows fits the range); their read-back values are covered by the adapters correspondence stream and
   its oracle - named in the evidence. *)
From Coq Require Import List NArith Arith.
Require Import Adapters.
Require Adapt AdaptP AdaptM.
Import ListNotations.
Open Scope N_scope.

(* for every write size W >= 1, block length L >= W, range start and index: the (up to) three word programs of
   FlashDataStorage::store - head word padded with 0xFF in front, aligned body, tail word padded with 0xFF behind - have
   EXACTLY the effect of programming the L block bytes in place at start + i * L: blocks are contiguous without padding
   and neighbours are untouched *)
Theorem c16_store_is_program : forall (W start : N) (L : nat), 1 <= W -> W <= N.of_nat L ->
  forall m i data, wf m -> length data = L ->
  forall x, store W start L m i data x = programl m (ts start L i) data x.
Proof. exact store_is_program. Qed.

(* read-back: on an erased block area the stored bytes are what the flash holds afterwards *)
Theorem c16_data_get_after_store : forall (W start : N) (L : nat), 1 <= W -> W <= N.of_nat L ->
  forall m i data k, wf m -> length data = L -> Forall (fun b => b < 256) data ->
  (forall x, ts start L i <= x < ts start L i + N.of_nat L -> m x = 255) -> (k < L)%nat ->
  store W start L m i data (ts start L i + N.of_nat k) = nth k data 255.
Proof. exact data_get_after_store. Qed.

(* frame: no byte outside the block's own range changes, whatever the store order *)
Theorem c16_data_frame : forall (W start : N) (L : nat), 1 <= W -> W <= N.of_nat L ->
  forall m i data x, wf m -> length data = L ->
  x < ts start L i \/ ts start L i + N.of_nat L <= x -> store W start L m i data x = m x.
Proof. exact data_frame. Qed.

(* the head and tail words never overlap and the three pieces add up to the block *)
Theorem c16_split_lens : forall (W start : N) (L : nat), 1 <= W -> W <= N.of_nat L -> forall i,
  (head_len W start L i + body_len W start L i + tail_len W start L i = L)%nat /\ (head_len W start L i + tail_len W start L i <= L)%nat.
Proof. exact split_lens. Qed.

(* the executable model compared with the implementation (Adapt.data_store, device with alignment and bounds checks)
   leaves exactly the memory of the proved model whenever it succeeds *)
Theorem c16_executable_is_store : forall start d i data d', 1 <= Adapt.wW d ->
  Adapt.data_store start d i data = (d', Adapt.AOk tt) ->
  forall x, Adapt.wm d' x = store (Adapt.wW d) start (length data) (Adapt.wm d) i data x.
Proof. exact AdaptP.data_store_is_store. Qed.

(* matrix adapter: for every write size W >= 1 the triangular packing puts the rows back to back - row m+1 starts where row m
   ends; a row of chunk m / (8 W) occupies (m / (8 W) + 1) write units; distinct rows never overlap *)
Theorem c16_matrix_rows_back_to_back : forall W m, 1 <= W ->
  Adapt.row_offset W (m + 1) = Adapt.row_offset W m + Adapt.row_size W m.
Proof. exact AdaptM.row_offset_succ. Qed.
Theorem c16_matrix_row_size : forall W m, 1 <= W -> Adapt.row_size W m = (m / (8 * W) + 1) * W.
Proof. exact AdaptM.row_size_spec. Qed.
Theorem c16_matrix_rows_disjoint : forall W a b, 1 <= W -> a < b ->
  Adapt.row_offset W a + Adapt.row_size W a <= Adapt.row_offset W b.
Proof. exact AdaptM.rows_disjoint. Qed.
(* num_rows never advertises a row that does not fit the configured range (nor one beyond the bit width) *)
Theorem c16_matrix_num_rows_fit : forall W range_len nb j, 1 <= W -> j < Adapt.matrix_num_rows W range_len nb ->
  Adapt.row_offset W j + Adapt.row_size W j < range_len /\ j < N.of_nat (8 * nb).
Proof. exact AdaptM.num_rows_fit. Qed.
(* a successful set_row of the executable model changes no byte outside its own row, hence no byte of any other row *)
Theorem c16_matrix_rows_do_not_interfere : forall start nb d ma raw d' mb x, 1 <= Adapt.wW d -> length raw = nb -> ma <> mb ->
  Adapt.matrix_set_row start nb d ma raw = (d', Adapt.AOk tt) ->
  start + Adapt.row_offset (Adapt.wW d) mb <= x < start + Adapt.row_offset (Adapt.wW d) mb + Adapt.row_size (Adapt.wW d) mb ->
  Adapt.wm d' x = Adapt.wm d x.
Proof. exact AdaptM.matrix_rows_do_not_interfere. Qed.
(* parity adapter: a successful store changes no byte outside the block's own padded slot *)
Theorem c16_parity_store_confined : forall start d i data d', 1 <= Adapt.wW d ->
  Adapt.parity_store start d i data = (d', Adapt.AOk tt) ->
  let up := Adapt.round_up (N.of_nat (length data)) (Adapt.wW d) in
  forall x, x < start + i * up \/ start + i * up + up <= x -> Adapt.wm d' x = Adapt.wm d x.
Proof. exact AdaptM.parity_store_confined. Qed.

Print Assumptions c16_store_is_program.
Print Assumptions c16_matrix_rows_back_to_back.
Print Assumptions c16_matrix_row_size.
Print Assumptions c16_matrix_rows_disjoint.
Print Assumptions c16_matrix_num_rows_fit.
Print Assumptions c16_matrix_rows_do_not_interfere.
Print Assumptions c16_parity_store_confined.
Print Assumptions c16_data_get_after_store.
Print Assumptions c16_data_frame.
Print Assumptions c16_split_lens.
Print Assumptions c16_executable_is_store.
