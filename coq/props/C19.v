(* C19 - Single-erasure (V1) updaters repair only what parity determines. Pinned statements only.
   Proved at the level of fragment sets (Peel.v): the repair loop of both V1 implementations - scan the received coded rows in
   order, take the first with exactly one missing covered fragment, repeat - recovers exactly the least set closed under
   single-missing completion (the peeling oracle), independently of the scan order.  The byte-level models of the two
   implementations (V1.v with orig = false / true) are compared with the crates by the naive / orig correspondence streams;
   that a repaired fragment equals the original and that the final check succeeds with the exact image are exercised there
   (oracle), not proved - named in the evidence. *)
From Coq Require Import List Arith.
Require Import Peel.
Import ListNotations.

Theorem c19_peel_exact : forall have0 rows n,
  (forall r, In r rows -> NoDup r /\ forall i, In i r -> (i < n)%nat) ->
  forall i, repair_loop (count_missing have0 n) have0 rows i = true <-> peel have0 rows i.
Proof. exact peel_exact. Qed.

(* the loop has reached its fixed point: no further repair step applies *)
Theorem c19_loop_complete : forall have0 rows n,
  (forall r, In r rows -> NoDup r /\ forall i, In i r -> (i < n)%nat) ->
  forall fuel have, (count_missing have n <= fuel)%nat ->
  (forall i, peel have0 rows i -> have i = true \/ True) ->
  repair_step (repair_loop fuel have rows) rows = None.
Proof. exact loop_complete. Qed.

Print Assumptions c19_peel_exact.
Print Assumptions c19_loop_complete.
