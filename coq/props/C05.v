(* C05 - Starting an update never destroys the newest confirmed firmware. Pinned statements only.
   Header level (Slots.v): [alloc_repaired] is fs.rs::alloc_slotpair's choice of the two slots to erase and rewrite
   (MgrP.alloc_fixed_repaired: it is the function the byte-level model Mgr.v runs, for >= 3 slots); [fallback] is
   fallback_firmware_slot; [reach N] over-approximates every history from blank flash: status marks, erases, cancel,
   remediation and every crash prefix are "sub-arrangements", a completed start writes two headers. *)
From Coq Require Import List NArith.
Require Import Slots SlotsProof RingA Exact RingB Total Mgr MgrP.
Import ListNotations.

(* For every slot count N >= 4 and every reachable ring (no bound on the history length), the two slots a start
   erases and rewrites are never the slot of the most recently confirmed image; since every flash operation of
   start_update, in every crash prefix, lies in those two slots (C08), the fallback image survives. *)
Theorem c05_start_never_takes_fallback : forall (N : nat) (sl : slots) (f a b : nat) (s1 s2 : BinNums.N),
  (4 <= N)%nat -> reach N sl -> nowrap sl -> fallback sl = Some f ->
  alloc_repaired sl = Ok (a, b, s1, s2) -> a <> f /\ b <> f.
Proof. exact c05_start_never_takes_fallback. Qed.

(* the ring stays exact along every history: sequence number = virtual position up to a constant *)
Theorem c05_reach_exact : forall N sl, (2 <= N)%nat -> reach N sl -> length sl = N /\ VExact sl.
Proof. exact reach_exact. Qed.

(* the committed guards coincide with the ones the proofs use *)
Theorem c05_alloc_as_committed : forall sl, (3 <= length sl)%nat -> alloc_fixed sl = alloc_repaired sl.
Proof. exact alloc_fixed_repaired. Qed.

(* the allocation is total on any ring of parseable headers (no panic), reachable or not *)
Theorem c05_alloc_total : forall sl,
  (forall i s, seqat sl i = Some s -> (s < 4294967295)%N) -> alloc_repaired sl <> Panic.
Proof. exact alloc_total. Qed.

(* the unrepaired guards (the tree before the fix: commit) violate the property: witness history
   "confirm #1, abort #2, start #3" on four slots *)
Theorem c05_original_guards_refuted :
  let sl := [conf 0; ip Parity 1; ip Firmware 2; None] in
  fallback sl = Some 0%nat /\ alloc_current sl = Ok (3%nat, 0%nat, 3%N, 4%N) /\ alloc_repaired sl = Ok (2%nat, 3%nat, 2%N, 3%N).
Proof. exact c05_refuted. Qed.

Print Assumptions c05_start_never_takes_fallback.
Print Assumptions c05_reach_exact.
Print Assumptions c05_alloc_as_committed.
Print Assumptions c05_alloc_total.
Print Assumptions c05_original_guards_refuted.
