(* C02 - The parity reconstructor never produces wrong data. Pinned statements only. *)
From Coq Require Import List NArith.
Require Import Recon ReconProof.
Require MRecon MReconSim.
Import ListNotations.
Open Scope N_scope.

(* For every block count, block size, capacity, V width, original data X, parity matrix that is the identity
   below n (rows above are arbitrary), and every finite sequence of received blocks consistent with X
   (any order, duplicates, late data, parity first, dependent and all-zero rows):
   every block written to the data store equals the original of that index, and whenever a call reports
   Done the length is n * block size and the data store holds exactly the n originals. *)
Theorem c02_recon_sound :
  forall (P : nat -> row) (nn cap vbits : nat) (bs0 : N) (X : nat -> blk) (bl : list (nat * blk)),
    (forall m, (m < nn)%nat -> P m = N.shiftl 1 (N.of_nat m)) ->
    Forall (consistent P nn X) bl ->
    let '(s', rs, evs) := run P cap vbits (init nn bs0) bl in
    (forall i b, In (EDataStore i b) evs -> (i < nn)%nat /\ b = X i) /\
    (forall len, In (Done len) rs -> len = N.of_nat nn * bs0 /\ forall i, (i < nn)%nat -> dat s' i = Some (X i)).
Proof. exact recon_sound. Qed.

(* non-vacuity: the crate's own unit sequence meets the hypotheses and reaches Done *)
Theorem c02_nonvacuous :
  let P := TestParity 4 in let X := fun i => N.of_nat (S i) in
  let bl := [(0%nat,1);(2%nat,3);(9%nat,2);(10%nat,1);(14%nat,6)] in
  Forall (consistent P 4 X) bl /\ In (Done 4) (snd (fst (run P 2 8 (init 4 1) bl))).
Proof. exact c02_example. Qed.

(* the executable model run by the `recon` correspondence stream (MRecon.run_case, the fault-aware reconstructor over the
   instrumented storages, no fault armed) IS Recon.run: same results, same storage-call log, same final data store - so the
   theorem above is about the very function whose output is compared with the implementation's *)
Theorem c02_executable_model_is_recon : forall n0 cap vbits bs0 tbl blocks,
  let '(t', rs, es) := Recon.run (MRecon.matrix_of n0 tbl) cap vbits (Recon.init n0 bs0) blocks in
  let '(rs', evs', dat', _) := MRecon.run_case n0 cap vbits bs0 None tbl blocks in
  map fst rs' = map (fun r => MRecon.Ok (MReconSim.res_of r)) rs /\ evs' = map MReconSim.ev_of es /\ dat' = map (Recon.dat t') (seq 0 n0).
Proof. exact MReconSim.run_case_is_recon. Qed.

Print Assumptions c02_recon_sound.
Print Assumptions c02_executable_model_is_recon.
Print Assumptions c02_nonvacuous.
