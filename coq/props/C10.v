(* C10 - Parity rows match the LoRaWAN TS004 fragmentation matrix. Pinned statements only.
   [matrix_line fuel N M] is the reference written from the specification (PRBS23 seeded with 1 + 1001 N, floor(M/2) draws,
   modulus M + 1 when M is a power of two; repeats allowed), [matrix_line_full] its no-repeat variant on the same PRBS
   stream (force-full-r); both return the list of drawn positions, [None] when the fuel of the rejection loop runs out.
   Termination is proved in part: for every M that is not a power of two no draw is ever rejected (any fuel >= 1, every N);
   for the powers of two up to 128 and every N in 1..1023 by computation (at most 64 consecutive rejections). For
   M in {256, ..., 16384} it would need the period structure of the 23-bit LFSR: there every theorem carries the [= Some l]
   hypothesis and termination is exercised by the lfdbt stream (fuel exhaustion prints "nonterminating" and would disagree). *)
From Coq Require Import List NArith.
Require Import Lfdbt LfdbtP InteropP.
Require TermP.
Require Mgr MgrP.
Import ListNotations.
Open Scope N_scope.

(* the three implementation-shaped generators (u32 seed arithmetic, shift instead of division, 0-based row index) equal the
   reference for every M and every coded-fragment number 1 <= N <= 16383 *)
Theorem c10_new_eq_spec : forall fuel cn cm, cn <= 16383 -> impl_new fuel cn cm = matrix_line fuel cn cm.
Proof. exact impl_new_eq_spec. Qed.
Theorem c10_new_full_eq_spec : forall fuel cn cm, cn <= 16383 -> impl_new_full fuel cn cm = matrix_line_full fuel cn cm.
Proof. exact impl_new_full_eq_spec. Qed.
Theorem c10_lfdbt_eq_spec : forall fuel ri n, ri + 1 <= 16383 -> impl_lfdbt fuel ri n = matrix_line fuel ri n.
Proof. exact impl_lfdbt_eq_spec. Qed.

(* the updater's reconstructor-side matrix: identity for data fragments, row N at (0-based) index M + N - 1 *)
Theorem c10_updater_identity : forall ffr nn mm, (mm < nn)%nat -> Mgr.updater_row ffr nn mm = N.shiftl 1 (N.of_nat mm).
Proof. exact MgrP.updater_row_identity. Qed.
Theorem c10_updater_coded : forall nn mm l, (nn <= mm)%nat -> N.of_nat (mm - nn + 1) <= 16383 ->
  matrix_line Mgr.PRBS_FUEL (N.of_nat (mm - nn + 1)) (N.of_nat nn) = Some l -> Mgr.updater_row false nn mm = mask l.
Proof. exact MgrP.updater_row_coded. Qed.

(* rows never address a fragment >= M; never empty for M >= 2; with force-full-r exactly floor(M/2) distinct fragments *)
Theorem c10_row_in_range : forall fuel n M l, matrix_line fuel n M = Some l -> Forall (fun r => r < M) l.
Proof. exact row_in_range. Qed.
Theorem c10_mask_in_range : forall fuel n M l i, matrix_line fuel n M = Some l -> M <= i -> N.testbit (mask l) i = false.
Proof. exact mask_in_range. Qed.
Theorem c10_row_nonempty : forall fuel n M l, 2 <= M -> matrix_line fuel n M = Some l -> l <> [].
Proof. exact row_nonempty. Qed.
Theorem c10_full_r_weight : forall fuel n M l, matrix_line_full fuel n M = Some l ->
  NoDup l /\ length l = N.to_nat (M / 2) /\ Forall (fun r => r < M) l.
Proof. exact full_r_weight. Qed.

(* the reference reproduces the coded fragments of the shipped interoperability vectors (regenerated into gen/Interop.v) *)
Theorem c10_interop_ok : interop_check = true.
Proof. exact interop_ok. Qed.
(* ... and the rows pinned in the repository's own tests and documentation *)
Theorem c10_pinned_rows :
  option_map mask (matrix_line 64 1 26) = Some 27472331 /\ option_map mask (matrix_line 64 3 16) = Some 13575 /\
  option_map mask (matrix_line_full 64 3 16) = Some 13607.
Proof. exact (conj lfdbt_row1 (conj doc_row3 doc_row3_full)). Qed.

(* termination (partial, see the header) *)
Theorem c10_terminates_nonpow2 : forall fuel n M, (1 <= fuel)%nat -> 1 <= M -> is_pow2 M = false -> exists l, matrix_line fuel n M = Some l.
Proof. exact TermP.matrix_line_total_nonpow2. Qed.
Theorem c10_terminates_pow2_small : forall k n, k <= 7 -> 1 <= N.of_nat n <= 1023 -> exists l, matrix_line 64 (N.of_nat n) (2 ^ k) = Some l.
Proof. exact TermP.matrix_line_total_pow2. Qed.

Print Assumptions c10_new_eq_spec.
Print Assumptions c10_terminates_nonpow2.
Print Assumptions c10_terminates_pow2_small.
Print Assumptions c10_new_full_eq_spec.
Print Assumptions c10_lfdbt_eq_spec.
Print Assumptions c10_updater_identity.
Print Assumptions c10_updater_coded.
Print Assumptions c10_row_in_range.
Print Assumptions c10_mask_in_range.
Print Assumptions c10_row_nonempty.
Print Assumptions c10_full_r_weight.
Print Assumptions c10_interop_ok.
Print Assumptions c10_pinned_rows.
