(* C11 - Slot header encoding is canonical; status codes are one-way and tear-safe.
   Only pinned statements, closed by [exact]; constants come from gen/Consts.v (regenerated
   from the compiled crates on every run). *)
From Coq Require Import List NArith Bool.
Require Import Consts Layout LayoutP.
Import ListNotations.
Open Scope N_scope.

(* a 28-byte string parses iff every field holds a legal value *)
Theorem c11_parse_iff_legal : forall bs,
  (exists h, parse bs = Some h) <-> (exists h, fields_of bs = Some h /\ legal h = true).
Proof. exact parse_iff_legal. Qed.

(* parsing then re-encoding reproduces the bytes *)
Theorem c11_parse_encode : forall bs h,
  bytes_ok bs -> parse bs = Some h -> encode h = bs /\ legal h = true.
Proof. exact parse_encode. Qed.

(* encoding then parsing reproduces the header *)
Theorem c11_encode_parse : forall h, legal h = true -> parse (encode h) = Some h.
Proof. exact encode_parse. Qed.

(* what "legal" means, spelled out (so that a change of [legal] is visible here) *)
Theorem c11_legal_spelled_out : forall h, legal h = true <->
  (kind h = KIND_FIRMWARE \/ kind h = KIND_PARITY) /\ seq h <> 4294967295 /\ seq h < 4294967296 /\
  1 <= size h <= 256 /\ 1 <= count h <= 16384 /\
  In (ext h) [EXT_IN_PROGRESS; EXT_ABORTED; EXT_COMPLETE] /\
  In (int_ h) [INT_IN_PROGRESS; INT_COMPLETE] /\
  In (boot h) [BOOT_UNTESTED; BOOT_SUCCESSFUL; BOOT_UNSUCCESSFUL].
Proof. exact legal_spelled_out. Qed.

(* fixed field offsets, code values and region offsets that deployed bootloaders read *)
Theorem c11_deployed_values :
  (KIND_OFFSET, SEQUENCE_NUMBER_OFFSET, SEGMENT_SIZE_OFFSET, NUMBER_OF_SEGMENTS_OFFSET,
   WRITE_EXT_STATUS_OFFSET, WRITE_INT_STATUS_OFFSET, BOOT_OUTCOME_OFFSET, SLOT_HEADER_SIZE)
  = (0, 4, 8, 12, 16, 20, 24, 28) /\
  (KIND_FIRMWARE, KIND_PARITY) = (0, 1) /\
  (EXT_IN_PROGRESS, EXT_ABORTED, EXT_COMPLETE) = (0xFFFFFFFF, 0xAAAAAAAA, 0x44444444) /\
  (INT_IN_PROGRESS, INT_COMPLETE) = (0xFFFFFFFF, 0x11111111) /\
  (BOOT_UNTESTED, BOOT_SUCCESSFUL, BOOT_UNSUCCESSFUL) = (0xFFFFFFFF, 0xABCD1234, 0xCDEF7890) /\
  (DATA_NOT_WRITTEN, DATA_WRITTEN) = (0xFF, 0x33) /\
  (WRITTEN_OFFSET, DATA_REGION_OFFSET, DATA_PAYLOAD_OFFSET) = (0x400, 0x4400, 0x4444) /\
  (MAX_SEGMENT_SIZE, MAX_SEGMENTS) = (256, 16384).
Proof. exact deployed_values. Qed.

(* the deprecated crate uses the very same values *)
Theorem c11_original_crate_same_values :
  (O_KIND_OFFSET, O_SEQUENCE_NUMBER_OFFSET, O_SEGMENT_SIZE_OFFSET, O_NUMBER_OF_SEGMENTS_OFFSET,
   O_WRITE_EXT_STATUS_OFFSET, O_WRITE_INT_STATUS_OFFSET, O_BOOT_OUTCOME_OFFSET, O_SLOT_HEADER_SIZE,
   O_KIND_FIRMWARE, O_KIND_PARITY, O_EXT_IN_PROGRESS, O_EXT_ABORTED, O_EXT_COMPLETE, O_INT_IN_PROGRESS, O_INT_COMPLETE,
   O_BOOT_UNTESTED, O_BOOT_SUCCESSFUL, O_BOOT_UNSUCCESSFUL, O_DATA_NOT_WRITTEN, O_DATA_WRITTEN,
   O_WRITTEN_OFFSET, O_DATA_REGION_OFFSET, O_DATA_PAYLOAD_OFFSET, O_MAX_SEGMENT_SIZE, O_MAX_SEGMENTS)
  = (KIND_OFFSET, SEQUENCE_NUMBER_OFFSET, SEGMENT_SIZE_OFFSET, NUMBER_OF_SEGMENTS_OFFSET,
   WRITE_EXT_STATUS_OFFSET, WRITE_INT_STATUS_OFFSET, BOOT_OUTCOME_OFFSET, SLOT_HEADER_SIZE,
   KIND_FIRMWARE, KIND_PARITY, EXT_IN_PROGRESS, EXT_ABORTED, EXT_COMPLETE, INT_IN_PROGRESS, INT_COMPLETE,
   BOOT_UNTESTED, BOOT_SUCCESSFUL, BOOT_UNSUCCESSFUL, DATA_NOT_WRITTEN, DATA_WRITTEN,
   WRITTEN_OFFSET, DATA_REGION_OFFSET, DATA_PAYLOAD_OFFSET, MAX_SEGMENT_SIZE, MAX_SEGMENTS).
Proof. exact original_same_values. Qed.

(* every status transition the API performs only clears bits (new & old = new) *)
Theorem c11_transitions_clear_only :
  forallb (fun '(o, n) => N.land o n =? n)
    [(EXT_IN_PROGRESS, EXT_ABORTED); (EXT_IN_PROGRESS, EXT_COMPLETE); (INT_IN_PROGRESS, INT_COMPLETE);
     (BOOT_UNTESTED, BOOT_SUCCESSFUL); (BOOT_UNTESTED, BOOT_UNSUCCESSFUL)] = true.
Proof. exact transitions_clear_only. Qed.

(* tear safety, for each status field: for every ordered pair (old, new) of legal codes and EVERY word [mid]
   that a partial program of [new] over [old] can leave (old&new is-subset-of mid is-subset-of old, bitwise):
   if mid is a legal code at all, it is old or new - never a third status *)
Theorem c11_tear_safe : forall codes, In codes [ext_codes; int_codes; boot_codes] ->
  forall old new mid, In old codes -> In new codes ->
    N.land mid old = mid -> N.land (N.land old new) mid = N.land old new ->
    In mid codes -> mid = old \/ mid = new.
Proof. exact tear_safe_all. Qed.

(* the combined classification is a total function that agrees with the documented table on every legal
   (external, internal, boot) triple and both sequence-number validities, hence assigns exactly one state *)
Theorem c11_total_status_table : forall h,
  In (ext h) ext_codes -> In (int_ h) int_codes -> In (boot h) boot_codes ->
  total_status h = spec_status (negb (seq h =? SEQ_INVALID)) (ext h) (int_ h) (boot h).
Proof. exact (total_status_table status_table_checked). Qed.

(* a status mark changes exactly its own field and yields bytewise old AND code *)
Theorem c11_mark_effect : forall m bs, length bs = 28%nat ->
  length (apply_mark m bs) = 28%nat /\
  forall k, (k < 28)%nat ->
    nth k (apply_mark m bs) 0 =
      (if (fst (mark_field m) <=? N.of_nat k) && (N.of_nat k <? fst (mark_field m) + 4)
       then N.land (nth k bs 0) (nth (k - N.to_nat (fst (mark_field m))) (bytes_of (snd (mark_field m))) 255)
       else nth k bs 0).
Proof. exact mark_effect. Qed.

Print Assumptions c11_parse_iff_legal.
Print Assumptions c11_parse_encode.
Print Assumptions c11_encode_parse.
Print Assumptions c11_legal_spelled_out.
Print Assumptions c11_deployed_values.
Print Assumptions c11_original_crate_same_values.
Print Assumptions c11_transitions_clear_only.
Print Assumptions c11_tear_safe.
Print Assumptions c11_total_status_table.
Print Assumptions c11_mark_effect.
