(* C03 - Reconstruction finishes as soon as the received blocks determine the data. Pinned statements only. *)
From Coq Require Import List NArith.
Require Import Recon ReconProof Stmts Span ReconExtra.
Import ListNotations.
Open Scope N_scope.

(* Done is reported at call t exactly when the rows accepted so far (every call that was not refused; data blocks
   count as unit rows) span all of GF(2)^n - for every contract-respecting matrix, geometry, capacity and sequence. *)
Theorem c03_done_iff_full_rank :
  forall (P : nat -> row) (nn cap vbits : nat) (bs0 : N) (X : nat -> blk) (bl : list (nat * blk)) (t : nat),
    (forall m, (m < nn)%nat -> P m = e m) -> (forall m, below (P m) nn) ->
    Forall (consistent P nn X) bl -> (t < length bl)%nat ->
    let rs := snd (fst (run P cap vbits (init nn bs0) bl)) in
    is_done (nth t rs NeedMore) = true <->
    full_rank (Kacc P [] (firstn (S t) bl) (firstn (S t) rs)) nn.
Proof. exact done_iff_full_rank. Qed.

(* never before the blocks received determine the data: two originals consistent with the same blocks agree at Done *)
Theorem c03_done_determines :
  forall P nn cap vbits bs0 bl X X', contract P nn ->
    Forall (consistent P nn X) bl -> Forall (consistent P nn X') bl ->
    (exists len, In (Done len) (results P cap vbits nn bs0 bl)) ->
    forall i, (i < nn)%nat -> X i = X' i.
Proof. exact done_determines. Qed.

(* once Done, every later call returns Done (same length) and performs no storage call *)
Theorem c03_done_stable :
  forall P cap vbits s i b len, let '(_, r, _) := handle_block P cap vbits s i b in r = Done len ->
    forall i' b', let '(s'', r', ev) := handle_block P cap vbits (fst (fst (handle_block P cap vbits s i b))) i' b' in
                  r' = Done len /\ ev = [].
Proof. exact done_stable. Qed.

(* a parity block is refused exactly when (stage 1, coded index, more unknowns than the capacity), and a refusal
   changes nothing: same state, no storage call *)
Theorem c03_refusal_exact :
  forall P cap vbits s i b,
    let '(s', r, ev) := handle_block P cap vbits s i b in
    (r = TooManyMissing <->
       is_complete s = false /\ l s = 0%nat /\ (n s <= i)%nat /\ (Nat.min cap vbits < missing s)%nat) /\
    (r = TooManyMissing -> s' = s /\ ev = []).
Proof. exact refusal_exact. Qed.

Print Assumptions c03_done_iff_full_rank.
Print Assumptions c03_done_determines.
Print Assumptions c03_done_stable.
Print Assumptions c03_refusal_exact.
