(* C03 - Reconstruction finishes as soon as the received blocks determine the data. Pinned statements only. *)
From Coq Require Import List NArith.
Require Import Recon ReconProof Stmts Span.
Import ListNotations.
Open Scope N_scope.

(* Done is reported at call t exactly when the rows accepted so far (every call that was not refused; data blocks
   count as unit rows) span all of GF(2)^n - for every contract-respecting matrix, geometry, capacity and sequence. *)
Theorem c03_done_iff_full_rank :
  forall (P : nat -> row) (nn cap vbits : nat) (bs0 : N) (X : nat -> blk) (bl : list (nat * blk)) (t : nat),
    (forall m, (m < nn)%nat -> P m = e m) -> (forall m, below (P m) nn) ->
    Forall (consistent P nn X) bl -> (t < length bl)%nat ->
    let rs := snd (fst (run P cap vbits (init nn bs0) bl)) in
    is_done (nth t rs NeedMore) = true <->
    full_rank (Kacc P [] (firstn (S t) bl) (firstn (S t) rs)) nn.
Proof. exact done_iff_full_rank. Qed.

Print Assumptions c03_done_iff_full_rank.
