(* C13 - Recovery and cancel leave at most the resumable session pending. Pinned statements only.
   [try_recover fits] is update.rs::try_recover at header level (Recover.v), [fits] the geometry check for the slot size;
   the byte-level model Mgr.try_recover_inner takes its decision from exactly this function. *)
From Coq Require Import List NArith.
Require Import Slots SlotsProof RingA Exact RingB Recover Idem Boot Life Life2 Life3 Life4 Life5 Sound Sound2 Decide RingArith Sound3 Sound4 Sound5 Sound6 Complete.
Import ListNotations.

Theorem c13_recover_some_exclusive : forall fits sl f p sl' i h,
  try_recover fits sl = (Some (f, p), sl') -> nth_error sl' i = Some (Some h) -> ext_inprogress h = true -> i = f \/ i = p.
Proof. exact recover_some_exclusive. Qed.

Theorem c13_recover_none_clears : forall fits sl sl' i h,
  try_recover fits sl = (None, sl') -> nth_error sl' i = Some (Some h) -> ext_inprogress h = false.
Proof. exact recover_none_clears. Qed.

Theorem c13_cancel_clears : forall sl i h, nth_error (cancel_all sl) i = Some (Some h) -> ext_inprogress h = false.
Proof. exact cancel_clears. Qed.

(* confirmed, rejected and acknowledgement-pending slots are left byte-identical *)
Theorem c13_recover_protected : forall fits sl r sl' i h,
  try_recover fits sl = (r, sl') -> nth_error sl i = Some (Some h) -> protected h = true -> nth_error sl' i = Some (Some h).
Proof. exact recover_protected. Qed.

(* repeating the call: same answer, same slots (hence no flash modification) *)
Theorem c13_recover_idempotent : forall fits sl r sl', seq_distinct (indexed sl) ->
  try_recover fits sl = (r, sl') -> try_recover fits sl' = (r, sl').
Proof. exact recover_idempotent. Qed.

(* soundness over histories, every NS >= 4: a returned session belongs to an update that a completed start wrote
   and that was since neither completed, cancelled nor erased ([st] is that ghost set; [ssteps]: whole operations
   and every crash prefix of start, in the committed erase order) *)
Theorem c13_recover_sound_history : forall NS, (4 <= NS)%nat -> forall fits sl st f p sl',
  ssteps fits (repeat None NS, []) (sl, st) -> try_recover fits sl = (Some (f, p), sl') -> In (f, p) st.
Proof. exact c13_recover_sound_history. Qed.

(* completeness over histories: whenever the latest start attempt ran to completion and that update was neither
   completed nor cancelled ([Some (f, p)] is that ghost), recovery returns exactly it *)
Theorem c13_recover_complete_history : forall NS, (4 <= NS)%nat -> forall fits sl f p,
  lsteps fits (repeat None NS, None) (sl, Some (f, p)) -> fst (try_recover fits sl) = Some (f, p).
Proof. exact c13_recover_complete_history. Qed.

Print Assumptions c13_recover_some_exclusive.
Print Assumptions c13_recover_none_clears.
Print Assumptions c13_cancel_clears.
Print Assumptions c13_recover_protected.
Print Assumptions c13_recover_idempotent.
Print Assumptions c13_recover_sound_history.
Print Assumptions c13_recover_complete_history.
