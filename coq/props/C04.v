(* C04 - Power loss never yields a falsely complete image or a panicking recovery. Pinned statements only.
   Proved: the ingredients that make a falsely complete slot impossible under the torn-write device model; the
   "no call panics on the flash left by a power loss" clause is exercised by the session-torn stream (model outcome [RPanic]
   is compared with observed panics) and, for arbitrary flash, is C17's. *)
From Coq Require Import List NArith.
Require Import Consts Layout LayoutP.
Require Mgr MgrP Slots Total Nor Crc CrcTie FinalMark.
Import ListNotations.
Open Scope N_scope.

(* a partially programmed status word never reads as a third legal status (every intermediate pattern, symbolically) *)
Theorem c04_tear_safe : forall codes, In codes [ext_codes; int_codes; boot_codes] ->
  forall old new mid, In old codes -> In new codes ->
    N.land mid old = mid -> N.land (N.land old new) mid = N.land old new ->
    In mid codes -> mid = old \/ mid = new.
Proof. exact tear_safe_all. Qed.

(* Complete is programmed only after the CRC over the stored image matched *)
Theorem c04_check_gates_mark : forall m u d,
  Mgr.dlog (fst (Mgr.check_and_mark_done m u d)) <> Mgr.dlog d ->
  exists h d1, Mgr.u_complete u = true /\ Mgr.load_header m (Mgr.u_fw u) d = (d1, Some (Some h)) /\
               snd (Mgr.crc_valid m (Mgr.u_fw u) h d1) = Mgr.ROk tt.
Proof. exact MgrP.check_gates_mark. Qed.

(* validation is read-only *)
Theorem c04_validation_readonly : forall m i d,
  Mgr.dlog (fst (Mgr.is_valid_firmware m i d)) = Mgr.dlog d /\ Mgr.dmem (fst (Mgr.is_valid_firmware m i d)) = Mgr.dmem d.
Proof. exact MgrP.is_valid_firmware_readonly. Qed.

(* slot erase proceeds from the block holding the header upwards: the first erase of Slot::clear is the header's block *)
Theorem c04_clear_header_first : forall k a d,
  Mgr.erase_blocks (S k) a d =
  match Mgr.d_erase d a with (d1, false) => (d1, false) | (d1, true) => Mgr.erase_blocks k (a + Mgr.dblk d) d1 end.
Proof. reflexivity. Qed.

(* allocation never panics on any ring of parseable headers (what a power loss can leave behind included) *)
Theorem c04_alloc_total : forall sl,
  (forall i s, RingA.seqat sl i = Some s -> (s < 4294967295)%N) -> Slots.alloc_repaired sl <> Slots.Panic.
Proof. exact Total.alloc_total. Qed.

(* The final check-and-mark under power loss, on the executable model: [FinalMark.new_ops d d'] are the operations the call
   appended to the device log (oldest first), [Mgr.crash_mem blk mem ops k torn] is the flash after a power loss that let the
   first k of them through and tore the next program ([torn] = number of fully programmed bytes and the bits of the next byte
   that were not yet cleared).  For every fault-free device, session, header of the firmware slot, crash point k and torn
   outcome: the data region of the firmware slot is untouched, and if the call programmed anything at all - in particular if
   the slot can read Complete afterwards - the region passes the CRC routine in that crash state. *)
Theorem c04_final_mark_crash_safe : forall m u d d' r len k torn,
  Nor.wf (Mgr.dmem d) -> Mgr.dfail d = None ->
  (Mgr.u_fw u = Mgr.u_par u \/ Mgr.u_fw u <> Mgr.u_par u) ->
  DATA_REGION_OFFSET + N.of_nat len <= Mgr.m_size m ->
  Mgr.base m (Mgr.u_fw u) + DATA_REGION_OFFSET + N.of_nat len <= Mgr.dtotal d ->
  Mgr.check_and_mark_done m u d = (d', r) ->
  forall h d1, Mgr.load_header m (Mgr.u_fw u) d = (d1, Some (Some h)) ->
  1 <= Slots.hsize h -> Slots.hcount h <= MAX_SEGMENTS -> Slots.hsize h <= MAX_SEGMENT_SIZE ->
  (68 <= len)%nat -> (N.to_nat (Slots.hcount h) * N.to_nat (Slots.hsize h) <= len)%nat ->
  let mm := Mgr.crash_mem (Mgr.dblk d) (Mgr.dmem d) (FinalMark.new_ops d d') k torn in
  (forall x, Mgr.base m (Mgr.u_fw u) + DATA_REGION_OFFSET <= x < Mgr.base m (Mgr.u_fw u) + DATA_REGION_OFFSET + N.of_nat len -> mm x = Mgr.dmem d x) /\
  (FinalMark.new_ops d d' <> [] ->
   Crc.crc_valid (CrcTie.region (Mgr.with_mem d mm) m (Mgr.u_fw u) len) (N.to_nat (Slots.hsize h)) (N.to_nat (Slots.hcount h)) = true).
Proof. exact FinalMark.final_mark_crash_safe. Qed.

Print Assumptions c04_tear_safe.
Print Assumptions c04_final_mark_crash_safe.
Print Assumptions c04_check_gates_mark.
Print Assumptions c04_validation_readonly.
Print Assumptions c04_clear_header_first.
Print Assumptions c04_alloc_total.
