(* C04 - Power loss never yields a falsely complete image or a panicking recovery. Pinned statements only.
   Proved: the ingredients that make a falsely complete slot impossible under the torn-write device model; the
   "no call panics on the flash left by a power loss" clause is exercised by the session-torn stream (model outcome [RPanic]
   is compared with observed panics) and, for arbitrary flash, is C17's. *)
From Coq Require Import List NArith.
Require Import Consts Layout LayoutP.
Require Mgr MgrP Slots Total.
Import ListNotations.
Open Scope N_scope.

(* a partially programmed status word never reads as a third legal status (every intermediate pattern, symbolically) *)
Theorem c04_tear_safe : forall codes, In codes [ext_codes; int_codes; boot_codes] ->
  forall old new mid, In old codes -> In new codes ->
    N.land mid old = mid -> N.land (N.land old new) mid = N.land old new ->
    In mid codes -> mid = old \/ mid = new.
Proof. exact tear_safe_all. Qed.

(* Complete is programmed only after the CRC over the stored image matched *)
Theorem c04_check_gates_mark : forall m u d,
  Mgr.dlog (fst (Mgr.check_and_mark_done m u d)) <> Mgr.dlog d ->
  exists h d1, Mgr.u_complete u = true /\ Mgr.load_header m (Mgr.u_fw u) d = (d1, Some (Some h)) /\
               snd (Mgr.crc_valid m (Mgr.u_fw u) h d1) = Mgr.ROk tt.
Proof. exact MgrP.check_gates_mark. Qed.

(* validation is read-only *)
Theorem c04_validation_readonly : forall m i d,
  Mgr.dlog (fst (Mgr.is_valid_firmware m i d)) = Mgr.dlog d /\ Mgr.dmem (fst (Mgr.is_valid_firmware m i d)) = Mgr.dmem d.
Proof. exact MgrP.is_valid_firmware_readonly. Qed.

(* slot erase proceeds from the block holding the header upwards: the first erase of Slot::clear is the header's block *)
Theorem c04_clear_header_first : forall k a d,
  Mgr.erase_blocks (S k) a d =
  match Mgr.d_erase d a with (d1, false) => (d1, false) | (d1, true) => Mgr.erase_blocks k (a + Mgr.dblk d) d1 end.
Proof. reflexivity. Qed.

(* allocation never panics on any ring of parseable headers (what a power loss can leave behind included) *)
Theorem c04_alloc_total : forall sl,
  (forall i s, RingA.seqat sl i = Some s -> (s < 4294967295)%N) -> Slots.alloc_repaired sl <> Slots.Panic.
Proof. exact Total.alloc_total. Qed.

Print Assumptions c04_tear_safe.
Print Assumptions c04_check_gates_mark.
Print Assumptions c04_validation_readonly.
Print Assumptions c04_clear_header_first.
Print Assumptions c04_alloc_total.
