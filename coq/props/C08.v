(* C08 - Update traffic stays inside the session's two slots and obeys NOR rules. Pinned statements only. *)
From Coq Require Import NArith List.
Import ListNotations.
Require Import Consts Nor Geom Store.
Require MRecon Mgr MgrP MgrSim Confine V1 OrigConf.
Open Scope N_scope.

(* parity blocks and matrix rows of the byte-level model: whatever index, block size, capacity or offset is passed,
   write_raw's bound keeps every program inside [parity slot + 0x400, parity slot end) - never the seven header fields *)
Theorem c08_parity_puts_confined : forall m fw par bsz maxl moff s k b, HEADER_SIZE <= Mgr.m_size m ->
  MgrP.newest_prog_in (Mgr.f_dev s) (Mgr.f_dev (fst (MRecon.m_pput (Mgr.flash_sto m fw par bsz maxl moff) s k b)))
                      (Mgr.base m par + HEADER_SIZE) (Mgr.base m par + Mgr.m_size m) /\
  MgrP.newest_prog_in (Mgr.f_dev s) (Mgr.f_dev (fst (MRecon.m_mput (Mgr.flash_sto m fw par bsz maxl moff) s k b)))
                      (Mgr.base m par + HEADER_SIZE) (Mgr.base m par + Mgr.m_size m).
Proof. exact MgrP.parity_puts_confined. Qed.

(* data blocks: for a geometry accepted by start_update and an index below the fragment count (C09), the block lands in
   [firmware slot + 0x4400, slot end) and its marker is exactly one byte of the status table *)
Theorem c08_data_put_confined : forall m fw par bsz maxl moff s i b nseg,
  nseg <= MAX_SEGMENTS -> nseg * bsz <= Mgr.m_size m - DATA_REGION_OFFSET -> DATA_REGION_OFFSET <= Mgr.m_size m -> N.of_nat i < nseg ->
  let d := Mgr.f_dev s in let d' := Mgr.f_dev (fst (MRecon.m_dput (Mgr.flash_sto m fw par bsz maxl moff) s i b)) in
  Mgr.dlog d' = Mgr.dlog d \/
  (exists a v z, Mgr.dlog d' = Mgr.FProg a bsz v z :: Mgr.dlog d /\ Mgr.base m fw + DATA_REGION_OFFSET <= a /\ a + bsz <= Mgr.base m fw + Mgr.m_size m) \/
  (exists a v z z', Mgr.dlog d' = Mgr.FProg (Mgr.base m fw + WRITTEN_OFFSET + N.of_nat i) 1 DATA_WRITTEN z' :: Mgr.FProg a bsz v z :: Mgr.dlog d /\
                    Mgr.base m fw + DATA_REGION_OFFSET <= a /\ a + bsz <= Mgr.base m fw + Mgr.m_size m /\
                    Mgr.base m fw + WRITTEN_OFFSET + N.of_nat i + 1 <= Mgr.base m fw + DATA_REGION_OFFSET).
Proof. exact MgrP.data_put_confined. Qed.

(* address arithmetic, for every index and size: rows contiguous and disjoint, blocks disjoint, everything below the
   capacity found by the search inside the slot *)
Theorem c08_mro_succ : forall i, mro (i + 1) = mro i + rowlen i.
Proof. exact mro_succ. Qed.
Theorem c08_rows_disjoint : forall sz L m m', m < m' -> rowaddr sz L m + rowlen m <= rowaddr sz L m'.
Proof. exact rows_disjoint. Qed.
Theorem c08_blocks_disjoint : forall sz m m', m < m' -> paraddr sz m + sz <= paraddr sz m'.
Proof. exact blocks_disjoint. Qed.
Theorem c08_parity_layout : forall slot_size sz m, let L := max_l slot_size sz in
  DATA_REGION_OFFSET < slot_size -> m < L ->
  paraddr sz m + sz <= paraddr sz L /\ paraddr sz L = rowaddr sz L 0 /\ rowaddr sz L m + rowlen m <= slot_size.
Proof. exact parity_layout. Qed.
Theorem c08_fw_layout : forall slot_size sz nseg i,
  1 <= sz -> nseg <= MAX_SEGMENTS -> nseg * sz <= slot_size - DATA_REGION_OFFSET -> DATA_REGION_OFFSET < slot_size -> i < nseg ->
  HEADER_SIZE <= stataddr i /\ stataddr i + 1 <= DATA_REGION_OFFSET /\ dataaddr sz i + sz <= slot_size.
Proof. exact fw_layout. Qed.

(* NOR: programming an erased (or compatible) region reads back what was written; disjoint programs do not disturb *)
Theorem c08_read_program_same : forall m a len v, erased m a len -> v < 2 ^ (8 * len) -> read (program m a len v) a len = v.
Proof. exact read_program_same. Qed.
Theorem c08_read_program_disjoint : forall m a len v b blen,
  b + blen <= a \/ a + len <= b -> read (program m a len v) b blen = read m b blen.
Proof. exact read_program_disjoint. Qed.

(* Run level, on the executable model: [Confine.in_pair m blk fw par e] says that the logged operation e (a program with its
   address and length, or the erase of one block of size blk) lies inside slot fw or inside slot par.
   (1) every handle_segment call - whatever it returns (Ok, error, panic), whatever fault is armed, for every index and
   payload - adds to the device log only programs inside the session's two slots, for every session whose block count and
   size fit the slot (the geometry start_update accepts); (2) so does every delivery; (3) a start_update that reports a
   session has performed only erases and programs inside the two slots of that session. *)
Theorem c08_handle_segment_confined : forall checked ffr m blk u idx1 payload plen d cnt,
  cnt <= MAX_SEGMENTS -> cnt * MRecon.bs (Mgr.u_rd u) <= Mgr.m_size m - DATA_REGION_OFFSET -> DATA_REGION_OFFSET <= Mgr.m_size m ->
  MRecon.n (Mgr.u_rd u) = N.to_nat cnt -> 1 <= cnt ->
  let '(d', u', r) := Mgr.handle_segment checked ffr m u idx1 payload plen d in
  (exists news, Mgr.dlog d' = news ++ Mgr.dlog d /\ Forall (Confine.in_pair m blk (Mgr.u_fw u) (Mgr.u_par u)) news) /\
  Mgr.u_fw u' = Mgr.u_fw u /\ Mgr.u_par u' = Mgr.u_par u /\ MRecon.n (Mgr.u_rd u') = MRecon.n (Mgr.u_rd u) /\ MRecon.bs (Mgr.u_rd u') = MRecon.bs (Mgr.u_rd u).
Proof. exact Confine.handle_segment_confined. Qed.
Theorem c08_delivery_confined : forall checked ffr m blk cnt segs u d d' u' outs,
  cnt <= MAX_SEGMENTS -> cnt * MRecon.bs (Mgr.u_rd u) <= Mgr.m_size m - DATA_REGION_OFFSET -> DATA_REGION_OFFSET <= Mgr.m_size m ->
  MRecon.n (Mgr.u_rd u) = N.to_nat cnt -> 1 <= cnt ->
  MgrSim.feed m checked ffr u d segs = Some (d', u', outs) ->
  exists news, Mgr.dlog d' = news ++ Mgr.dlog d /\ Forall (Confine.in_pair m blk (Mgr.u_fw u) (Mgr.u_par u)) news.
Proof. exact Confine.feed_confined. Qed.
Theorem c08_start_update_confined : forall m sz cnt d d' u, 28 <= Mgr.m_size m ->
  Mgr.start_update m sz cnt d = (d', Mgr.ROk u) ->
  exists news, Mgr.dlog d' = news ++ Mgr.dlog d /\ Forall (Confine.in_pair m (Mgr.dblk d) (Mgr.u_fw u) (Mgr.u_par u)) news.
Proof. exact Confine.start_update_confined. Qed.

(* the single-erasure back-end (flash-algo-new without the matrix feature; V1.v1_write with orig = false is its write_segment_internal,
   used for received fragments and for the fragment rebuilt by repair_step): with the geometry start_update accepts for that back-end
   (both counts at most MAX_SEGMENTS, both fragment tables fit behind the data region) a fragment write - whatever it returns,
   whatever fault is armed, for every index, payload and device state - erases nothing and programs at most two ranges, both
   inside the slot the fragment index belongs to *)
Theorem c08_naive_write_confined : forall m u idx1 payload plen rlen d,
  V1.v_tf u <= MAX_SEGMENTS -> V1.v_tp u <= MAX_SEGMENTS -> DATA_REGION_OFFSET <= Mgr.m_size m ->
  V1.v_tf u * plen <= Mgr.m_size m - DATA_REGION_OFFSET -> V1.v_tp u * plen <= Mgr.m_size m - DATA_REGION_OFFSET ->
  let '(d', _, _) := V1.v1_write false m u idx1 payload plen rlen d in
  exists news, Mgr.dlog d' = news ++ Mgr.dlog d /\ (length news <= 2)%nat /\ Forall (OrigConf.prog_in m (OrigConf.frag_slot u idx1)) news.
Proof. exact OrigConf.naive_write_in_slot. Qed.

Print Assumptions c08_parity_puts_confined.
Print Assumptions c08_handle_segment_confined.
Print Assumptions c08_delivery_confined.
Print Assumptions c08_start_update_confined.
Print Assumptions c08_data_put_confined.
Print Assumptions c08_mro_succ.
Print Assumptions c08_rows_disjoint.
Print Assumptions c08_blocks_disjoint.
Print Assumptions c08_parity_layout.
Print Assumptions c08_fw_layout.
Print Assumptions c08_read_program_same.
Print Assumptions c08_read_program_disjoint.
Print Assumptions c08_naive_write_confined.
