(* C14 - Firmware validation accepts exactly CRC-consistent completed firmware. Pinned statements only. *)
From Coq Require Import List NArith Arith.
Require Import Crc.
Require Mgr MgrP Slots Nor CrcTie Consts.
Import ListNotations.

(* the three-branch prefix-skip loop digests exactly the data-region bytes from offset 68 up to count * size, for every
   fragment size >= 1 (below, equal to, dividing or not dividing the 68-byte prefix) and every count *)
Theorem c14_crc_fed_spec : forall region sz n, (1 <= sz)%nat -> (n * sz <= length region)%nat ->
  crc_fed region sz n = skipn PREFIX (firstn (n * sz) region).
Proof. exact crc_fed_spec. Qed.
Theorem c14_crc_valid_spec : forall region sz n, (1 <= sz)%nat -> (n * sz <= length region)%nat ->
  crc_valid region sz n = (le32 region =? crc32_cksum (skipn PREFIX (firstn (n * sz) region)))%N.
Proof. exact crc_valid_spec. Qed.

(* the bitwise CRC of the model is CRC-32/CKSUM (catalogue check value) *)
Theorem c14_check_value : crc32_cksum [49;50;51;52;53;54;55;56;57]%N = 1985902208%N.
Proof. exact crc_check_value. Qed.

(* any single corrupted bit in the digested bytes changes the CRC register (for every message length and position) *)
Theorem c14_single_bit_detected : forall s m i j, length m = (i + 1 + j)%nat ->
  crc_bits s (xorl m (repeat false i ++ [true] ++ repeat false j)) <> crc_bits s m.
Proof. exact single_bit_detected. Qed.

(* byte-level model: validation succeeds iff the header parses as a firmware slot with completed external write and the
   CRC routine succeeds; it never modifies the flash; the final check-and-mark programs nothing unless the routine succeeded *)
Theorem c14_valid_iff : forall m i d,
  snd (Mgr.is_valid_firmware m i d) = Mgr.ROk tt <->
  exists d1 h, Mgr.load_header m i d = (d1, Some (Some h)) /\ Slots.hkind h = Slots.Firmware /\ Slots.hext h = Slots.EComplete /\
               snd (Mgr.crc_valid m i h d1) = Mgr.ROk tt.
Proof. exact MgrP.is_valid_firmware_iff. Qed.
Theorem c14_validation_readonly : forall m i d,
  Mgr.dlog (fst (Mgr.is_valid_firmware m i d)) = Mgr.dlog d /\ Mgr.dmem (fst (Mgr.is_valid_firmware m i d)) = Mgr.dmem d.
Proof. exact MgrP.is_valid_firmware_readonly. Qed.
Theorem c14_check_gates_mark : forall m u d,
  Mgr.dlog (fst (Mgr.check_and_mark_done m u d)) <> Mgr.dlog d ->
  exists h d1, Mgr.u_complete u = true /\ Mgr.load_header m (Mgr.u_fw u) d = (d1, Some (Some h)) /\
               snd (Mgr.crc_valid m (Mgr.u_fw u) h d1) = Mgr.ROk tt.
Proof. exact MgrP.check_gates_mark. Qed.

(* tie between the two levels: on a fault-free device whose data region lies inside it, the flash-level routine of the
   byte-level model (one device read per digested fragment, the skip loop over reads) decides exactly [Crc.crc_valid] of the
   bytes the region holds, and leaves the medium as it was *)
Theorem c14_flash_routine_is_list_routine : forall m i h d len,
  Nor.wf (Mgr.dmem d) -> Mgr.dfail d = None ->
  (1 <= Slots.hsize h)%N -> (Slots.hcount h <= Consts.MAX_SEGMENTS)%N -> (Slots.hsize h <= Consts.MAX_SEGMENT_SIZE)%N ->
  (68 <= len)%nat -> (N.to_nat (Slots.hcount h) * N.to_nat (Slots.hsize h) <= len)%nat ->
  (Mgr.base m i + Consts.DATA_REGION_OFFSET + N.of_nat len <= Mgr.dtotal d)%N ->
  exists d', Mgr.crc_valid m i h d
             = (d', if Crc.crc_valid (CrcTie.region d m i len) (N.to_nat (Slots.hsize h)) (N.to_nat (Slots.hcount h)) then Mgr.ROk tt else Mgr.RErr Mgr.MCrc32Mismatch)
             /\ CrcTie.same_medium d d'.
Proof. exact CrcTie.crc_valid_on_flash. Qed.

Print Assumptions c14_crc_fed_spec.
Print Assumptions c14_flash_routine_is_list_routine.
Print Assumptions c14_crc_valid_spec.
Print Assumptions c14_check_value.
Print Assumptions c14_single_bit_detected.
Print Assumptions c14_valid_iff.
Print Assumptions c14_validation_readonly.
Print Assumptions c14_check_gates_mark.
