(* C12 - Boot status and fallback queries follow the update lifecycle. Pinned statements only. *)
From Coq Require Import List NArith.
Require Import Slots SlotsProof RingA Exact RingB Recover Idem Boot Life Life2 Life3 Life4 Life5.
Import ListNotations.

(* Along EVERY history of the step system of Life.v (blank ring; the four crash prefixes of start, abort of one
   in-progress header, erase of one copy-incomplete / invalid slot, resume, reboot, completion marks under the
   proviso, copy-done, confirm, reject), for every slot count NS >= 4: the two queries, computed from the headers
   alone, equal what the abstract lifecycle [ghost] (awaiting copy / awaiting acknowledgement / confirmed list,
   maintained without looking at the headers) says. *)
Theorem c12_queries_follow_history : forall NS : nat, (4 <= NS)%nat -> forall st : state,
  steps (repeat None NS, {| copy := None; ack := None; conf := [] |}, None) st ->
  bl_boot_status (fst (fst st)) = expected_status (snd (fst st)) /\
  fallback (fst (fst st)) = hd_error (conf (snd (fst st))).
Proof. exact c12_queries_follow_history. Qed.

(* a start never removes the head of the confirmed list: the head really is the most recently confirmed image *)
Theorem c12_start_keeps_latest_confirmed : forall NS : nat, (4 <= NS)%nat ->
  forall sl g lv a b s1 s2 c rest, Inv2 NS (sl, g, lv) -> nowrap sl ->
  alloc_repaired sl = Ok (a, b, s1, s2) -> conf g = c :: rest -> hd_error (conf (gdrop b (gdrop a g))) = Some c.
Proof. exact start_keeps_latest_confirmed. Qed.

(* static specifications of the two queries (any ring): parity, in-progress, aborted and rejected headers are
   irrelevant by the definition of [awaiting] / [is_confirmed] *)
Theorem c12_bl_boot_status_spec : forall sl, at_most_one_awaiting sl ->
  (forall i, bl_boot_status sl = IncompleteInternal i <-> exists h, In (i, h) (indexed sl) /\ awaiting h = Some false) /\
  (forall i, bl_boot_status sl = FailedLoad i <-> exists h, In (i, h) (indexed sl) /\ awaiting h = Some true) /\
  (bl_boot_status sl = Idle <-> forall i h, In (i, h) (indexed sl) -> awaiting h = None).
Proof. exact bl_boot_status_spec. Qed.

Theorem c12_fallback_spec : forall sl f, fallback sl = Some f ->
  exists h, In (f, h) (indexed sl) /\ is_confirmed h = true /\
    forall j hj, In (j, hj) (indexed sl) -> is_confirmed hj = true -> (hseq hj <= hseq h)%N.
Proof. exact fallback_spec. Qed.

(* one call of try_recover / cancel-all is a history of the step system, so the theorem covers them *)
Theorem c12_recover_is_steps : forall fits sl g r sl', seq_distinct (indexed sl) -> try_recover fits sl = (r, sl') ->
  exists g', steps (sl, g, None) (sl', g', r).
Proof. exact recover_is_steps. Qed.

Print Assumptions c12_queries_follow_history.
Print Assumptions c12_start_keeps_latest_confirmed.
Print Assumptions c12_bl_boot_status_spec.
Print Assumptions c12_fallback_spec.
Print Assumptions c12_recover_is_steps.
