(* C17 - Malformed fragments and corrupt flash contents are handled without panic. Pinned statements only.
   Outcomes of the byte-level model are [ROk _ | RErr _ | RPanic]; every assert / unwrap / checked-arithmetic site of the
   modelled paths yields [RPanic], and the correspondence streams compare predicted and observed panics. *)
From Coq Require Import List NArith.
Require Import Consts.
Require MRecon Mgr MgrP Slots RingA Total Recover.
Import ListNotations.
Open Scope N_scope.

(* fragment index 0 (the only illegal index of the matrix back-end): answered with an error in both arithmetic modes and both
   feature builds, at every position of a session, before any effect - device, session bookkeeping and counters unchanged *)
Theorem c17_index_zero_rejected : forall checked ffr m u payload plen d,
  Mgr.handle_segment checked ffr m u 0 payload plen d = (d, u, Mgr.RErr (Mgr.MSpi Mgr.EOob)).
Proof. exact MgrP.index_zero_rejected. Qed.

(* allocation is total on ANY ring of parseable headers (duplicate / extreme sequence numbers, holes anywhere) *)
Theorem c17_alloc_total : forall sl,
  (forall i s, RingA.seqat sl i = Some s -> (s < 4294967295)%N) -> Slots.alloc_repaired sl <> Slots.Panic.
Proof. exact Total.alloc_total. Qed.

(* a newest parity header that announces more rows than a session can track (the 2048-bit used array) is not resumed *)
Theorem c17_oversize_parity_not_resumed : forall fits sl ni nh si sh,
  Recover.two_newest sl = (Some (ni, nh), Some (si, sh)) -> 2048 < Slots.hcount nh ->
  Recover.recover_inner fits sl = (None, sl).
Proof. exact MgrP.recover_oversize_parity. Qed.

(* whatever index, block size, capacity or matrix offset a (possibly corrupt) header yields, parity-block and matrix-row
   programs stay inside the parity slot, above its header area *)
Theorem c17_parity_puts_confined : forall m fw par bsz maxl moff s k b, HEADER_SIZE <= Mgr.m_size m ->
  MgrP.newest_prog_in (Mgr.f_dev s) (Mgr.f_dev (fst (MRecon.m_pput (Mgr.flash_sto m fw par bsz maxl moff) s k b)))
                      (Mgr.base m par + HEADER_SIZE) (Mgr.base m par + Mgr.m_size m) /\
  MgrP.newest_prog_in (Mgr.f_dev s) (Mgr.f_dev (fst (MRecon.m_mput (Mgr.flash_sto m fw par bsz maxl moff) s k b)))
                      (Mgr.base m par + HEADER_SIZE) (Mgr.base m par + Mgr.m_size m).
Proof. exact MgrP.parity_puts_confined. Qed.

Print Assumptions c17_index_zero_rejected.
Print Assumptions c17_alloc_total.
Print Assumptions c17_oversize_parity_not_resumed.
Print Assumptions c17_parity_puts_confined.
