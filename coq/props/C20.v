(* C20 - Deprecated manager: ring placement is oldest-first and writes stay in-slot. Pinned statements only.
   [find_oldest N h] is original-flash-algo's find_oldest_slot (ring.rs discontinuity search + rotation + get_next_seq_no) on
   the sequence numbers visible at each slot; the byte-level model Orig.orig_start takes its decisions from exactly this
   function.  [consistent N h p f s0]: f consecutively numbered slots starting at position p with number s0, the rest blank. *)
From Coq Require Import List NArith Arith.
Require Import OrigRing OrigStart.
Require Import Nor Mgr V1 OrigConf OrigConf2.
Import ListNotations.

(* for every slot count 2 <= N < 2^32 - 1, rotation p, fill level f and starting number s0 (the wrap across 2^32 - 1 included:
   next_seq skips the reserved value): the slot overwritten next is slot 0 on a blank ring, the oldest image on a full ring and
   otherwise the first blank position after the newest slot; it gets the successor of the newest sequence number *)
Theorem c20_ring_find_oldest : forall N_ h p f s0, (2 <= N_)%nat -> (N.of_nat N_ < 4294967295)%N -> consistent N_ h p f s0 ->
  find_oldest N_ h =
    (if Nat.eqb f 0 then 0%nat else if Nat.eqb f N_ then p else ((p + f) mod N_)%nat,
     if Nat.eqb f 0 then 0%N else next_seq (iter_next (f - 1) s0)).
Proof. exact ring_find_oldest. Qed.

(* next_seq is +1 modulo 2^32 - 1: the reserved value 0xFFFFFFFF is never produced and the wrap goes to 0 *)
Theorem c20_next_seq_mod : forall s, (s < 4294967295)%N -> next_seq s = ((s + 1) mod 4294967295)%N.
Proof. exact next_seq_mod. Qed.
Theorem c20_next_seq_never_reserved : forall s, (next_seq s < 4294967295)%N.
Proof. exact next_seq_lt. Qed.

(* the two allocations of start composed ([place] = one allocation: overwrite the position find_oldest names with the number it
   names, which is what Orig.orig_alloc_one does with the headers it re-reads from flash): on every consistent ring the firmware
   header goes to the position after the newest slot, the parity header to the ring successor of that position, and they get the
   next two sequence numbers (next_seq skips the reserved value, also across the wrap) *)
Theorem c20_start_takes_next_two : forall N_ h p f s0, (2 <= N_)%nat -> (N.of_nat N_ < 4294967295)%N -> consistent N_ h p f s0 ->
  let '((s1, q1), h1) := place N_ h in
  let '((s2, q2), _) := place N_ h1 in
  s1 = (if Nat.eqb f 0 then 0 else if Nat.eqb f N_ then p else (p + f) mod N_)%nat /\
  q1 = (if Nat.eqb f 0 then 0 else next_seq (iter_next (f - 1) s0))%N /\
  s2 = ((s1 + 1) mod N_)%nat /\ q2 = next_seq q1.
Proof. exact start_takes_next_two. Qed.
(* ... and the ring stays consistent (one slot more, or the run shifted by one on a full ring), so the statement applies again
   to the next update *)
Theorem c20_allocation_keeps_ring_consistent : forall N_ h p f s0, (2 <= N_)%nat -> (N.of_nat N_ < 4294967295)%N -> consistent N_ h p f s0 ->
  let h1 := snd (place N_ h) in
  if Nat.eqb f 0 then consistent N_ h1 0 1 0
  else if Nat.eqb f N_ then consistent N_ h1 ((p + 1) mod N_) N_ (next_seq s0)
  else consistent N_ h1 p (S f) s0.
Proof. exact place_consistent. Qed.

(* third clause, on the byte-level model of the deprecated manager's write_segment_internal (V1.v1_write with orig = true; the
   correspondence check runs the same fragment writes through original-flash-algo and compares results and the program log):
   for every manager geometry, updater state, fragment index, payload, payload length, scratch length and device state - faults
   armed or not, whatever the call returns - the call erases nothing and programs at most two ranges (payload, status byte), both
   inside the slot the fragment index belongs to (1..tf firmware slot, tf+1..tf+tp parity slot).  The proof uses the range check
   DATA_REGION_OFFSET + (i + 1) * size <= slot size; with the pre-fix expression (i + 1) * size <= slot size it does not go through *)
Theorem c20_fragment_writes_stay_in_slot : forall m u idx1 payload plen rlen d,
  let '(d', _, _) := v1_write true m u idx1 payload plen rlen d in
  exists news, dlog d' = news ++ dlog d /\ (length news <= 2)%nat /\ Forall (prog_in m (frag_slot u idx1)) news.
Proof. exact orig_write_in_slot. Qed.

(* ... and at the level of a whole call: write_segment followed by the documented driver loop (repair_step until None; the rebuilt
   fragment is written through the same range check) - V1.v1_handle with orig = true.  Whatever the call returns and whatever
   fault is armed, the device log grows only by programs inside the session's two slots (no erase), and the session keeps its slots *)
Theorem c20_handle_stays_in_pair : forall ffr m u idx1 payload plen d,
  let '(d', u', _) := v1_handle true ffr m u idx1 payload plen d in
  (exists news, dlog d' = news ++ dlog d /\ Forall (prog_pair m u) news) /\ same_ids u u'.
Proof. exact orig_handle_in_pair. Qed.

Print Assumptions c20_ring_find_oldest.
Print Assumptions c20_start_takes_next_two.
Print Assumptions c20_allocation_keeps_ring_consistent.
Print Assumptions c20_next_seq_mod.
Print Assumptions c20_next_seq_never_reserved.
Print Assumptions c20_fragment_writes_stay_in_slot.
Print Assumptions c20_handle_stays_in_pair.
