(* C18 - A failed flash operation does not advance the reconstruction. Pinned statements only.
   [handle_block] is the fault-aware model of parity-reconstruct's Reconstructor (MRecon.v), generic in the
   storage instance [I] (in-memory storages of the `recon` stream, flash-backed storages of the `session` stream);
   [StorageError] is the outcome of a call in which some storage operation failed. *)
From Coq Require Import List NArith.
Require Import MRecon MReconP.
Open Scope N_scope.

(* A call that returns the storage error has not advanced the in-memory claims: no data block is newly counted as
   stored ([done] unchanged), and no pivot row as used - UNLESS the failure happened inside the back substitution
   after the pivot set became complete ([is_complete s' = true]; the recorded finding c18-finish).  Only the stage
   marker may have been set, to the value the re-delivered fragment sets anyway. *)
Theorem c18_failed_call_keeps_bookkeeping :
  forall (St : Type) (I : msto St) P cap vbits s c idx b s' c',
  handle_block I P cap vbits s c idx b = (s', c', StorageError) ->
  n s' = n s /\ bs s' = bs s /\ done s' = done s /\
  (l s' = l s \/ (l s = 0%nat /\ l s' = missing s)) /\
  (used s' = used s \/ is_complete s' = true).
Proof. exact (@failed_call_keeps_bookkeeping). Qed.

Print Assumptions c18_failed_call_keeps_bookkeeping.
