(* C18 - A failed flash operation does not advance the reconstruction. Pinned statements only.
   [handle_block] is the fault-aware model of parity-reconstruct's Reconstructor (MRecon.v), generic in the
   storage instance [I] (in-memory storages of the `recon` stream, flash-backed storages of the `session` stream);
   [StorageError] is the outcome of a call in which some storage operation failed. *)
From Coq Require Import List NArith.
Require Import MRecon MReconP.
Require RetryP.
Open Scope N_scope.

(* A call that returns the storage error has not advanced the in-memory claims: no data block is newly counted as
   stored ([done] unchanged), and no pivot row as used - UNLESS the failure happened inside the back substitution
   after the pivot set became complete ([is_complete s' = true]; the recorded finding c18-finish).  Only the stage
   marker may have been set, to the value the re-delivered fragment sets anyway. *)
Theorem c18_failed_call_keeps_bookkeeping :
  forall (St : Type) (I : msto St) P cap vbits s c idx b s' c',
  handle_block I P cap vbits s c idx b = (s', c', StorageError) ->
  n s' = n s /\ bs s' = bs s /\ done s' = done s /\
  (l s' = l s \/ (l s = 0%nat /\ l s' = missing s)) /\
  (used s' = used s \/ is_complete s' = true).
Proof. exact (@failed_call_keeps_bookkeeping). Qed.

(* Re-delivery after a failed call, on the instrumented in-memory storages (one transient fault: the failing operation has no
   effect): for every matrix, state satisfying the stage invariant, block and fault position - if the call ends in the storage
   error and has not reached the back substitution, then re-delivering the same block with no fault armed returns the very
   outcome and bookkeeping of the fault-free call, and leaves the same data and matrix stores and the same parity blocks in
   every cell whose pivot bit is set (a parity block left in a cell without pivot bit is never read: c18_junk_unobservable).
   [RetryP.clear a] is [a] with the (already fired) fault disarmed. *)
Theorem c18_retry_is_fault_free : forall P cap vbits s a idx b s1 a1,
  RetryP.StageInv s ->
  handle_block abs_sto P cap vbits s a idx b = (s1, a1, StorageError) -> is_complete s1 = false ->
  forall sF aF oF, handle_block abs_sto P cap vbits s (RetryP.clear a) idx b = (sF, aF, oF) ->
  exists aR, handle_block abs_sto P cap vbits s1 (RetryP.clear a1) idx b = (sF, aR, oF) /\
             dat aR = dat aF /\ mat aR = mat aF /\ forall k, used sF k = true -> par aR k = par aF k.
Proof. exact RetryP.retry_is_fault_free. Qed.

(* the stage invariant ("no pivot bit before stage 2") holds initially and is kept by every call, whatever the storages do *)
Theorem c18_stage_inv_init : forall n0 bs0, RetryP.StageInv (rinit n0 bs0).
Proof. exact RetryP.stage_inv_init. Qed.
Theorem c18_stage_inv_step : forall (St : Type) (I : msto St) P cap vbits s c idx b s' c' o,
  handle_block I P cap vbits s c idx b = (s', c', o) -> RetryP.StageInv s -> RetryP.StageInv s'.
Proof. exact (@RetryP.stage_inv_step). Qed.

(* what a failed call can leave behind in the stores: nothing but a parity block in a cell without pivot bit *)
Theorem c18_failed_call_effect : forall P cap vbits s a idx b s' a',
  handle_block abs_sto P cap vbits s a idx b = (s', a', StorageError) -> is_complete s' = false ->
  dat a' = dat a /\ mat a' = mat a /\ forall k, used s k = true -> par a' k = par a k.
Proof. exact RetryP.failed_call_effect. Qed.

Print Assumptions c18_failed_call_keeps_bookkeeping.
Print Assumptions c18_retry_is_fault_free.
Print Assumptions c18_stage_inv_init.
Print Assumptions c18_stage_inv_step.
Print Assumptions c18_failed_call_effect.
