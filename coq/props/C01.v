(* C01 - A completed update holds exactly the transmitted image. Pinned statements only. *)
From Coq Require Import List NArith.
Require Import Nor Geom Store GRecon Sim Bridge.
Require Recon Mgr MgrP.
Import ListNotations.
Open Scope N_scope.

(* Byte-level core: for every well-formed geometry [g] (fragment size, count, slot size, positions of the two slots),
   image X (fragment i < n is a value below 2^(8 sz)), parity matrix that is the identity below n (rows above are
   arbitrary: the TS004 generator of either build is an instance, C10), initially erased slot pair, and EVERY block list
   consistent with X (any order, losses, duplicates, coded first, late data): once a call of the flash-level session
   reports Done, every fragment's status byte is 0x33 and its data region (offset 0x4400 + i * sz of the firmware slot)
   holds the original fragment.  Chain: Recon.run_sound -> Bridge.eqv_handle_block -> Sim.handle_block_sim (flash-backed
   storages refine the abstract ones) -> Store.v / Geom.v / Nor.v. *)
Theorem c01_flash_reconstruction_sound :
  forall g (P : nat -> N) (vbits : nat) (X : nat -> N) (bl : list (nat * N)) m0,
  wfgeo g ->
  (forall x, (fw g <= x < fw g + ssize g \/ pa g <= x < pa g + ssize g) -> m0 x = 255) ->
  (forall i, (N.of_nat i < nseg g) -> X i < B g) ->
  (forall m, (N.of_nat m < nseg g) -> P m = N.shiftl 1 (N.of_nat m)) ->
  Forall (Recon.consistent P (N.to_nat (nseg g)) X) bl ->
  let nn := N.to_nat (nseg g) in let cap := N.to_nat (capL g) in
  let c0 := mkg nn 0 (sz g) (fun _ => false) (fun _ => false) m0 in
  let '(c', rsc) := grun (flash_sto g) P cap vbits c0 bl in
  (exists len, In (Done len) rsc) ->
  forall i, (i < nn)%nat ->
    store c' (saddr g (N.of_nat i)) = MARK /\ c_dget g (store c') (N.of_nat i) = X i.
Proof. exact flash_reconstruction_sound. Qed.

(* the final check-and-mark of the byte-level model (Mgr.v) programs nothing unless the session is complete and the
   CRC check of the firmware slot succeeded *)
Theorem c01_check_gates_mark : forall m u d,
  Mgr.dlog (fst (Mgr.check_and_mark_done m u d)) <> Mgr.dlog d ->
  exists h d1, Mgr.u_complete u = true /\ Mgr.load_header m (Mgr.u_fw u) d = (d1, Some (Some h)) /\
               snd (Mgr.crc_valid m (Mgr.u_fw u) h d1) = Mgr.ROk tt.
Proof. exact MgrP.check_gates_mark. Qed.

Print Assumptions c01_flash_reconstruction_sound.
Print Assumptions c01_check_gates_mark.
