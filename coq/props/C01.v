(* C01 - A completed update holds exactly the transmitted image. Pinned statements only. *)
From Coq Require Import List NArith.
Require Import Nor Geom Store GRecon Sim Bridge.
Require Recon Mgr MgrP MRecon MgrSim StartSim Consts.
Import ListNotations.
Open Scope N_scope.

(* Byte-level core: for every well-formed geometry [g] (fragment size, count, slot size, positions of the two slots),
   image X (fragment i < n is a value below 2^(8 sz)), parity matrix that is the identity below n (rows above are
   arbitrary: the TS004 generator of either build is an instance, C10), initially erased slot pair, and EVERY block list
   consistent with X (any order, losses, duplicates, coded first, late data): once a call of the flash-level session
   reports Done, every fragment's status byte is 0x33 and its data region (offset 0x4400 + i * sz of the firmware slot)
   holds the original fragment.  Chain: Recon.run_sound -> Bridge.eqv_handle_block -> Sim.handle_block_sim (flash-backed
   storages refine the abstract ones) -> Store.v / Geom.v / Nor.v. *)
Theorem c01_flash_reconstruction_sound :
  forall g (P : nat -> N) (vbits : nat) (X : nat -> N) (bl : list (nat * N)) m0,
  wfgeo g ->
  (forall x, (fw g <= x < fw g + ssize g \/ pa g <= x < pa g + ssize g) -> m0 x = 255) ->
  (forall i, (N.of_nat i < nseg g) -> X i < B g) ->
  (forall m, (N.of_nat m < nseg g) -> P m = N.shiftl 1 (N.of_nat m)) ->
  Forall (Recon.consistent P (N.to_nat (nseg g)) X) bl ->
  let nn := N.to_nat (nseg g) in let cap := N.to_nat (capL g) in
  let c0 := mkg nn 0 (sz g) (fun _ => false) (fun _ => false) m0 in
  let '(c', rsc) := grun (flash_sto g) P cap vbits c0 bl in
  (exists len, In (Done len) rsc) ->
  forall i, (i < nn)%nat ->
    store c' (saddr g (N.of_nat i)) = MARK /\ c_dget g (store c') (N.of_nat i) = X i.
Proof. exact flash_reconstruction_sound. Qed.

(* the final check-and-mark of the byte-level model (Mgr.v) programs nothing unless the session is complete and the
   CRC check of the firmware slot succeeded *)
Theorem c01_check_gates_mark : forall m u d,
  Mgr.dlog (fst (Mgr.check_and_mark_done m u d)) <> Mgr.dlog d ->
  exists h d1, Mgr.u_complete u = true /\ Mgr.load_header m (Mgr.u_fw u) d = (d1, Some (Some h)) /\
               snd (Mgr.crc_valid m (Mgr.u_fw u) h d1) = Mgr.ROk tt.
Proof. exact MgrP.check_gates_mark. Qed.

(* The same statement on the EXECUTABLE byte-level model itself (Mgr.v: the functions extracted into the `fvm` driver whose device
   operations are compared with the implementation's, operation by operation): for every manager geometry with at least two
   slots, every fragment size / count start_update accepts, every device without an armed fault (arbitrary prior contents -
   start_update erases), both arithmetic modes and both row generators, every image X and EVERY list of delivered
   (index, payload) pairs consistent with X under the updater's own rows: if start_update succeeds, every handle_segment call
   returns Ok and one of them reports FirmwareComplete, then every fragment's status byte is 0x33 and the firmware slot's data
   region holds X.  Chain: StartSim.start_update_establishes, MgrSim.feed_is_grun (Mgr.flash_sto refines Sim.flash_sto:
   MgrSim.flash_sto_refines + MSim.handle_block_ref), Bridge.flash_reconstruction_sound_hdr. *)
Theorem c01_executable_model_update_sound :
  forall m sz cnt (checked ffr : bool) (X : nat -> N) segs d d1 u d' u' outs,
  (2 <= Mgr.m_slots m)%nat -> Mgr.m_size m - Consts.DATA_REGION_OFFSET < 4294967295 -> Mgr.dfail d = None ->
  Mgr.start_update m sz cnt d = (d1, Mgr.ROk u) ->
  (forall i, N.of_nat i < cnt -> X i < 2 ^ (8 * sz)) ->
  Forall (Recon.consistent (Mgr.updater_row ffr (N.to_nat cnt)) (N.to_nat cnt) X) (map MgrSim.conv segs) ->
  MgrSim.feed m checked ffr u d1 segs = Some (d', u', outs) ->
  In Mgr.FirmwareComplete outs ->
  forall i, (i < N.to_nat cnt)%nat ->
    Mgr.dmem d' (Mgr.base m (Mgr.u_fw u) + Consts.HEADER_SIZE + N.of_nat i) = Consts.DATA_WRITTEN /\
    read (Mgr.dmem d') (Mgr.base m (Mgr.u_fw u) + Consts.DATA_REGION_OFFSET + N.of_nat i * sz) sz = X i.
Proof. exact StartSim.mgr_update_sound. Qed.

(* [feed] is nothing but the successive handle_segment calls, ending at the first call that does not return Ok *)
Theorem c01_feed_unfolds : forall m checked ffr u d idx1 payload tl,
  MgrSim.feed m checked ffr u d ((idx1, payload) :: tl) =
  match Mgr.handle_segment checked ffr m u idx1 payload (MRecon.bs (Mgr.u_rd u)) d with
  | (d1, u1, Mgr.ROk o) => match MgrSim.feed m checked ffr u1 d1 tl with Some (d2, u2, os) => Some (d2, u2, o :: os) | None => None end
  | _ => None
  end.
Proof. reflexivity. Qed.

(* not vacuous: a concrete lossy session on a blank 4-slot device satisfies every hypothesis and completes (by computation) *)
Theorem c01_executable_model_nonvacuous :
  match Mgr.start_update StartSim.ex_m 4 3 (Mgr.blank_dev 70656 256) with
  | (d1, Mgr.ROk u) =>
      match MgrSim.feed StartSim.ex_m true false u d1 StartSim.ex_segs with
      | Some (d', u', outs) => existsb (fun o => match o with Mgr.FirmwareComplete => true | Mgr.Consumed => false end) outs = true /\
                               forallb (fun p => snd (MgrSim.conv p) =? Recon.enc StartSim.ex_P 3 StartSim.ex_X (fst (MgrSim.conv p))) StartSim.ex_segs = true /\
                               forallb (fun i => read (Mgr.dmem d') (Mgr.base StartSim.ex_m (Mgr.u_fw u) + Consts.DATA_REGION_OFFSET + N.of_nat i * 4) 4 =? StartSim.ex_X i) [0;1;2]%nat = true
      | None => False
      end
  | _ => False
  end.
Proof. exact StartSim.mgr_update_sound_nonvacuous. Qed.

Print Assumptions c01_flash_reconstruction_sound.
Print Assumptions c01_executable_model_update_sound.
Print Assumptions c01_feed_unfolds.
Print Assumptions c01_executable_model_nonvacuous.
Print Assumptions c01_check_gates_mark.
