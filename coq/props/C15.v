(* C15 - Accepted geometries fit, and the promised loss capacity is delivered. Pinned statements only. *)
From Coq Require Import NArith.
Require Import Consts Geom.
Require Mgr MgrP Recon Span Stmts ReconExtra.
Open Scope N_scope.

(* start_update's geometry check (update.rs::is_reasonably_sized as committed) accepts exactly the geometries a slot
   header can represent and whose image fits the data region (slot sizes below 4 GiB) *)
Theorem c15_accepts_iff : forall m sz cnt, Mgr.m_size m - DATA_REGION_OFFSET < 4294967295 ->
  (Mgr.reasonably_sized m sz cnt = None <->
   1 <= sz <= 256 /\ 1 <= cnt <= 16384 /\ sz * cnt <= Mgr.m_size m - DATA_REGION_OFFSET).
Proof. exact MgrP.reasonably_sized_iff. Qed.

(* otherwise the error is returned before any flash operation (the device state is returned unchanged) *)
Theorem c15_rejects_untouched : forall m sz cnt d e,
  Mgr.reasonably_sized m sz cnt = Some e -> Mgr.start_update m sz cnt d = (d, Mgr.RErr e).
Proof. exact MgrP.start_rejects_untouched. Qed.

(* the binary search of start_update returns the largest l < 2048 whose blocks and rows fit the parity slot *)
Theorem c15_max_l_spec : forall slot_size sz,
  let L := max_l slot_size sz in
  L < 2048 /\ mro L + L * sz <= slot_size - DATA_REGION_OFFSET /\
  (forall l', l' < 2048 -> mro l' + l' * sz <= slot_size - DATA_REGION_OFFSET -> l' <= L).
Proof. exact max_l_spec. Qed.

(* ... which is at least the capacity the README documents (strict inequality there) *)
Theorem c15_capacity_ge_documented : forall slot_size sz l,
  l < 2048 -> 17408 + l * sz + 4 * (l / 8) * (l / 8 + 1) + (l mod 8) * (l / 8 + 1) < slot_size ->
  l <= max_l slot_size sz.
Proof. exact capacity_ge_documented. Qed.

(* ... and is the capacity the started session enforces (and persists as the parity header's count) *)
Theorem c15_start_capacity : forall m sz cnt d d' u, Mgr.start_update m sz cnt d = (d', Mgr.ROk u) ->
  Mgr.u_maxl u = N.to_nat (max_l (Mgr.m_size m) sz) /\ Mgr.u_moff u = max_l (Mgr.m_size m) sz * sz.
Proof. exact MgrP.start_capacity. Qed.

(* within the capacity a parity fragment is never refused, beyond it the refusal leaves the state unchanged:
   the refusal predicate of the reconstructor is exact (C03) *)
Theorem c15_refusal_exact : forall P cap vbits s i b,
    let '(s', r, ev) := Recon.handle_block P cap vbits s i b in
    (r = Recon.TooManyMissing <->
       Recon.is_complete s = false /\ Recon.l s = 0%nat /\ (Recon.n s <= i)%nat /\ (Nat.min cap vbits < Recon.missing s)%nat) /\
    (r = Recon.TooManyMissing -> s' = s /\ ev = nil).
Proof. exact ReconExtra.refusal_exact. Qed.

Print Assumptions c15_accepts_iff.
Print Assumptions c15_rejects_untouched.
Print Assumptions c15_max_l_spec.
Print Assumptions c15_capacity_ge_documented.
Print Assumptions c15_start_capacity.
Print Assumptions c15_refusal_exact.
