From Coq Require Import List NArith ZArith Arith Bool Lia.
Require Import Slots SlotsProof RingA Exact RingB.
Import ListNotations.

(* ---------- header-level operations ---------- *)
Definition with_ext (h : hdr) (e : ext) : hdr := mkhdr (hkind h) (hseq h) (hsize h) (hcount h) e (hint h) (hboot h).
Definition ext_inprogress (h : hdr) : bool := match hext h with EInProgress => true | _ => false end.

Definition cancel_all (sl : slots) : slots :=
  map (fun o => match o with Some h => if ext_inprogress h then Some (with_ext h EAborted) else Some h | None => None end) sl.

(* the newest / second-newest scan of try_recover_inner *)
Definition scan2 (acc : option (nat * hdr) * option (nat * hdr)) (x : nat * hdr) : option (nat * hdr) * option (nat * hdr) :=
  match acc with
  | (Some nw, sec) =>
      if (hseq (snd nw) <? hseq (snd x))%N then (Some x, Some nw)
      else match sec with
           | Some s2 => if (hseq (snd s2) <? hseq (snd x))%N then (Some nw, Some x) else acc
           | None => (Some nw, Some x)
           end
  | (None, _) => (Some x, None)
  end.
Definition two_newest (sl : slots) := fold_left scan2 (indexed sl) (None, None).

Definition is_awip (h : hdr) : bool := match total_status h with AppWriteInProgress => true | _ => false end.
Definition kind_is_fw (h : hdr) : bool := match hkind h with Firmware => true | Parity => false end.

Section Rec.
Variable fits : N -> N -> bool.      (* is_reasonably_sized for this slot size *)

Definition remediate (keep1 keep2 : nat) (sl : slots) : slots :=
  map (fun '(i, o) =>
        if Nat.eqb i keep1 || Nat.eqb i keep2 then o else
        match o with
        | None => None
        | Some h => match total_status h with
                    | AppWriteInProgress => Some (with_ext h EAborted)
                    | BootloadWriteInProgress | InvalidNeedsErase => None
                    | _ => Some h
                    end
        end) (combine (seq 0 (length sl)) sl).

Definition recover_inner (sl : slots) : option (nat * nat) * slots :=
  match two_newest sl with
  | (Some (ni, nh), Some (si, sh)) =>
      if is_awip nh && negb (kind_is_fw nh) && is_awip sh && kind_is_fw sh && (hsize nh =? hsize sh)%N && fits (hsize sh) (hcount sh) && (hcount nh <=? 2048)%N
      then (Some (si, ni), remediate ni si sl)
      else (None, sl)
  | _ => (None, sl)
  end.

Definition try_recover (sl : slots) : option (nat * nat) * slots :=
  match recover_inner sl with
  | (Some p, sl') => (Some p, sl')
  | (None, _) => (None, cancel_all sl)
  end.

(* ---------- elementary facts ---------- *)
Lemma nth_error_cancel sl i : nth_error (cancel_all sl) i =
  match nth_error sl i with
  | Some (Some h) => Some (if ext_inprogress h then Some (with_ext h EAborted) else Some h)
  | Some None => Some None | None => None end.
Proof. unfold cancel_all. rewrite nth_error_map. destruct (nth_error sl i) as [[h|]|]; reflexivity. Qed.

Theorem cancel_clears sl i h : nth_error (cancel_all sl) i = Some (Some h) -> ext_inprogress h = false.
Proof.
  rewrite nth_error_cancel. destruct (nth_error sl i) as [[h0|]|]; try discriminate.
  destruct (ext_inprogress h0) eqn:E; intros H; inversion H; subst; [reflexivity| exact E].
Qed.

Lemma nth_error_combine_seq {A} (l : list A) k i : nth_error (combine (seq k (length l)) l) i = option_map (fun x => ((k + i)%nat, x)) (nth_error l i).
Proof.
  revert k i. induction l as [|a l IH]; intros k i; cbn [length seq combine]; [destruct i; reflexivity|].
  destruct i as [|i]; cbn [nth_error option_map]; [now rewrite Nat.add_0_r|]. rewrite IH. destruct (nth_error l i); cbn; [|reflexivity]. f_equal. f_equal. lia.
Qed.

Lemma nth_error_remediate k1 k2 sl i : nth_error (remediate k1 k2 sl) i =
  match nth_error sl i with
  | None => None
  | Some o => Some (if Nat.eqb i k1 || Nat.eqb i k2 then o else
               match o with None => None | Some h =>
                 match total_status h with
                 | AppWriteInProgress => Some (with_ext h EAborted)
                 | BootloadWriteInProgress | InvalidNeedsErase => None
                 | _ => Some h end end)
  end.
Proof. unfold remediate. rewrite nth_error_map, nth_error_combine_seq. destruct (nth_error sl i); reflexivity. Qed.

(* C13: after a successful recovery only the session's two slots read as in progress *)
Theorem recover_some_exclusive sl f p sl' i h :
  try_recover sl = (Some (f, p), sl') -> nth_error sl' i = Some (Some h) -> ext_inprogress h = true -> i = f \/ i = p.
Proof.
  unfold try_recover, recover_inner. destruct (two_newest sl) as [[[ni nh]|] [[si sh]|]]; try (intros H; inversion H; fail).
  destruct (_ && _); [|intros H; inversion H].
  intros H. inversion H; subst. rewrite nth_error_remediate. destruct (nth_error sl i) as [o|]; [|discriminate].
  destruct (Nat.eqb_spec i p) as [->|]; [auto|]. destruct (Nat.eqb_spec i f) as [->|]; [auto|]. cbn [orb].
  destruct o as [h0|]; [|discriminate]. unfold ext_inprogress, total_status, with_ext.
  destruct (hext h0) eqn:E1, (hint h0) eqn:E2, (hboot h0) eqn:E3; cbn; intros Q; inversion Q; subst; cbn; try rewrite E1; discriminate.
Qed.

Theorem recover_none_clears sl sl' i h :
  try_recover sl = (None, sl') -> nth_error sl' i = Some (Some h) -> ext_inprogress h = false.
Proof.
  unfold try_recover. destruct (recover_inner sl) as [[q|] s0]; intros H; inversion H; subst. apply cancel_clears.
Qed.

(* C13: slots holding a confirmed, rejected or acknowledgement-pending image are never modified *)
Definition protected (h : hdr) : bool :=
  match total_status h with ConfirmedImage | RejectedImage | FirstBootPendingAck => true | _ => false end.

Theorem recover_protected sl r sl' i h :
  try_recover sl = (r, sl') -> nth_error sl i = Some (Some h) -> protected h = true -> nth_error sl' i = Some (Some h).
Proof.
  unfold try_recover, recover_inner. intros H Hn Hp.
  assert (C : nth_error (cancel_all sl) i = Some (Some h)).
  { rewrite nth_error_cancel, Hn. unfold protected, total_status, ext_inprogress in *. destruct (hext h), (hint h), (hboot h); try discriminate; reflexivity. }
  destruct (two_newest sl) as [[[ni nh]|] [[si sh]|]]; try (inversion H; subst; exact C).
  destruct (_ && _); [|inversion H; subst; exact C].
  inversion H; subst. rewrite nth_error_remediate, Hn. destruct (_ || _); [reflexivity|].
  unfold protected in Hp. destruct (total_status h); try discriminate; reflexivity.
Qed.
End Rec.

(* ---------- the scan finds the two largest sequence numbers ---------- *)
Definition Top2 (L : list (nat * hdr)) (acc : option (nat * hdr) * option (nat * hdr)) : Prop :=
  match acc with
  | (None, None) => L = []
  | (None, Some _) => False
  | (Some nw, sec) =>
      In nw L /\ (forall y, In y L -> (hseq (snd y) <= hseq (snd nw))%N) /\
      match sec with
      | None => forall y, In y L -> y = nw
      | Some s2 => In s2 L /\ s2 <> nw /\ forall y, In y L -> y <> nw -> (hseq (snd y) <= hseq (snd s2))%N
      end
  end.

Lemma scan2_top2 L acc x :
  (forall y, In y L -> hseq (snd y) <> hseq (snd x)) -> ~ In x L ->
  Top2 L acc -> Top2 (L ++ [x]) (scan2 acc x).
Proof.
  intros Hd Hx HT. destruct acc as [[nw|] sec]; cbn [Top2 scan2] in *.
  - destruct HT as (Hin & Hmax & Hsec).
    assert (Hne : hseq (snd nw) <> hseq (snd x)) by (apply Hd; exact Hin).
    destruct (N.ltb_spec (hseq (snd nw)) (hseq (snd x))) as [Hlt|Hge].
    + (* x becomes the newest, the old newest the second *)
      split; [apply in_or_app; right; left; reflexivity|]. split.
      * intros y Hy. apply in_app_or in Hy. destruct Hy as [Hy|[<-|[]]]; [specialize (Hmax y Hy); lia| lia].
      * split; [apply in_or_app; left; exact Hin|]. split; [intros ->; apply Hx; exact Hin|].
        intros y Hy Hyx. apply in_app_or in Hy. destruct Hy as [Hy|[<-|[]]]; [apply Hmax; exact Hy| congruence].
    + destruct sec as [s2|].
      * destruct Hsec as (Hs2 & Hs2n & Hs2m).
        destruct (N.ltb_spec (hseq (snd s2)) (hseq (snd x))) as [Hlt2|Hge2]; cbn [Top2].
        -- split; [apply in_or_app; left; exact Hin|]. split.
           ++ intros y Hy. apply in_app_or in Hy. destruct Hy as [Hy|[<-|[]]]; [apply Hmax; exact Hy| lia].
           ++ split; [apply in_or_app; right; left; reflexivity|]. split; [intros ->; apply Hx; exact Hin|].
              intros y Hy Hyn. apply in_app_or in Hy. destruct Hy as [Hy|[<-|[]]]; [specialize (Hs2m y Hy Hyn); lia| lia].
        -- split; [apply in_or_app; left; exact Hin|]. split.
           ++ intros y Hy. apply in_app_or in Hy. destruct Hy as [Hy|[<-|[]]]; [apply Hmax; exact Hy| lia].
           ++ split; [apply in_or_app; left; exact Hs2|]. split; [exact Hs2n|].
              intros y Hy Hyn. apply in_app_or in Hy. destruct Hy as [Hy|[<-|[]]]; [apply Hs2m; assumption| lia].
      * cbn [Top2]. split; [apply in_or_app; left; exact Hin|]. split.
        -- intros y Hy. apply in_app_or in Hy. destruct Hy as [Hy|[<-|[]]]; [apply Hmax; exact Hy| lia].
        -- split; [apply in_or_app; right; left; reflexivity|]. split; [intros ->; apply Hx; exact Hin|].
           intros y Hy Hyn. apply in_app_or in Hy. destruct Hy as [Hy|[<-|[]]]; [rewrite (Hsec y Hy) in Hyn; contradiction| lia].
  - destruct sec; [contradiction|]. subst L. cbn [app Top2]. split; [left; reflexivity|]. split.
    + intros y [<-|[]]. lia.
    + intros y [<-|[]]. reflexivity.
Qed.

Lemma fold_scan2_top2 : forall L2 L1 acc,
  NoDup (L1 ++ L2) -> (forall y z, In y (L1 ++ L2) -> In z (L1 ++ L2) -> hseq (snd y) = hseq (snd z) -> y = z) ->
  Top2 L1 acc -> Top2 (L1 ++ L2) (fold_left scan2 L2 acc).
Proof.
  induction L2 as [|x L2 IH]; intros L1 acc Hnd Hds HT; cbn [fold_left]; [now rewrite app_nil_r|].
  replace (L1 ++ x :: L2) with ((L1 ++ [x]) ++ L2) in * by (rewrite <- app_assoc; reflexivity).
  apply IH; [exact Hnd| exact Hds|]. apply scan2_top2; [| |exact HT].
  - intros y Hy C. assert (y = x).
    { apply Hds; [apply in_or_app; left; apply in_or_app; left; exact Hy| apply in_or_app; left; apply in_or_app; right; left; reflexivity| exact C]. }
    subst y. rewrite <- app_assoc in Hnd. apply NoDup_remove_2 in Hnd. apply Hnd. apply in_or_app; left; exact Hy.
  - intros Hy. rewrite <- app_assoc in Hnd. apply NoDup_remove_2 in Hnd. apply Hnd. apply in_or_app; left; exact Hy.
Qed.

(* ---------- distinctness facts from the ring invariant ---------- *)
Lemma indexed_nodup sl : NoDup (indexed sl).
Proof.
  unfold indexed. assert (G : forall (l : list (option hdr)) k,
    NoDup (flat_map (fun '(i, o) => match o with Some h => [(i, h)] | None => [] end) (combine (seq k (length l)) l)) /\
    forall i h, In (i, h) (flat_map (fun '(i, o) => match o with Some h => [(i, h)] | None => [] end) (combine (seq k (length l)) l)) -> (k <= i)%nat).
  { induction l as [|o l IH]; intros k; cbn [length seq combine flat_map]; [split; [constructor| intros ? ? []]|].
    destruct (IH (S k)) as [A B]. split.
    - destruct o as [h|]; cbn [app]; [|exact A]. constructor; [|exact A]. intros C. apply B in C. lia.
    - intros i h Hin. apply in_app_or in Hin. destruct Hin as [Hin|Hin]; [|apply B in Hin; lia].
      destruct o; [|contradiction]. destruct Hin as [Hin|[]]. inversion Hin; lia. }
  apply (G sl 0%nat).
Qed.

Lemma VSorted_distinct sl y z : VSorted sl -> (0 < length sl)%nat -> In y (indexed sl) -> In z (indexed sl) -> hseq (snd y) = hseq (snd z) -> y = z.
Proof.
  intros (vp & H1 & H2 & H3) Hn0 Hy Hz E. destruct y as [i hi], z as [j hj]. cbn [snd] in E.
  assert (Si : seqat sl i = Some (hseq hi)) by (apply seqat_indexed; exists hi; split; [exact Hy| reflexivity]).
  assert (Sj : seqat sl j = Some (hseq hj)) by (apply seqat_indexed; exists hj; split; [exact Hz| reflexivity]).
  pose proof (H2 i j _ _ Si Sj) as A. pose proof (H2 j i _ _ Sj Si) as B.
  assert (vp i = vp j) by lia. pose proof (H1 i _ Si) as Mi. pose proof (H1 j _ Sj) as Mj. rewrite H in Mi. rewrite Mi in Mj. apply Nat2Z.inj in Mj. subst j.
  apply indexed_iff in Hy. apply indexed_iff in Hz. rewrite Hy in Hz. inversion Hz. reflexivity.
Qed.

Section Complete.
Variable fits : N -> N -> bool.

(* C13: a start that ran to completion is found again by recovery, whatever the ring looked like before *)
Theorem recover_finds_started N sl a b s1 s2 sz cnt cap :
  (2 <= N)%nat -> reach N sl -> nowrap sl -> alloc_repaired sl = Ok (a, b, s1, s2) ->
  fits sz cnt = true -> (cap <= 2048)%N ->
  let h1 := mkhdr Firmware s1 sz cnt EInProgress IInProgress Untested in
  let h2 := mkhdr Parity s2 sz cap EInProgress IInProgress Untested in
  let sl2 := setnth (setnth sl a (Some h1)) b (Some h2) in
  fst (recover_inner fits sl2) = Some (a, b).
Proof.
  intros HN HR HW EA Hfit Hcap h1 h2 sl2.
  destruct (reach_exact N sl HN HR) as [Hl HS].
  pose proof (alloc_form_unique sl a b s1 s2 HW EA) as HF.
  destruct (VExact_alloc sl a b s1 s2 h1 h2 ltac:(lia) HS HW HF eq_refl eq_refl) as (La & Lb & Nab & S12 & Hoth & HS2e).
  pose proof (VExact_VSorted _ HS2e) as HS2.
  fold sl2 in HS2.
  assert (Hl2 : length sl2 = N) by (unfold sl2; now rewrite !setnth_length).
  assert (Ia : In (a, h1) (indexed sl2)).
  { apply indexed_iff. unfold sl2. rewrite nth_error_setnth. destruct (Nat.eqb_spec a b); [congruence|].
    rewrite nth_error_setnth, Nat.eqb_refl. destruct (Nat.ltb_spec a (length sl)); [reflexivity| lia]. }
  assert (Ib : In (b, h2) (indexed sl2)).
  { apply indexed_iff. unfold sl2. rewrite nth_error_setnth, Nat.eqb_refl, setnth_length. destruct (Nat.ltb_spec b (length sl)); [reflexivity| lia]. }
  assert (Hrest : forall y, In y (indexed sl2) -> y <> (a, h1) -> y <> (b, h2) -> (hseq (snd y) < s1)%N).
  { intros [i h] Hy Hya Hyb. apply indexed_iff in Hy. unfold sl2 in Hy. rewrite nth_error_setnth in Hy.
    destruct (Nat.eqb_spec i b) as [->|Hib].
    { destruct (Nat.ltb b (length (setnth sl a (Some h1)))); inversion Hy; subst; congruence. }
    rewrite nth_error_setnth in Hy. destruct (Nat.eqb_spec i a) as [->|Hia].
    { destruct (Nat.ltb a (length sl)); inversion Hy; subst; congruence. }
    cbn [snd]. apply (Hoth i (hseq h) Hia Hib). unfold seqat. now rewrite Hy. }
  pose proof (fold_scan2_top2 (indexed sl2) [] (None, None) (indexed_nodup sl2)
               (fun y z Hy Hz => VSorted_distinct sl2 y z HS2 ltac:(lia) Hy Hz) eq_refl) as HT.
  cbn [app] in HT. unfold recover_inner, two_newest. destruct (fold_left scan2 (indexed sl2) (None, None)) as [[nw|] sec]; cbn [Top2] in HT.
  2:{ destruct sec; [contradiction| rewrite HT in Ia; contradiction]. }
  destruct HT as (Hnw & Hmax & Hsec).
  assert (ED : forall x y : nat * hdr, {x = y} + {x <> y}).
  { decide equality; [decide equality; try apply N.eq_dec; decide equality| apply Nat.eq_dec]. }
  assert (CLS : forall y, In y (indexed sl2) -> y = (a, h1) \/ y = (b, h2) \/ (hseq (snd y) < s1)%N).
  { intros y Hy. destruct (ED y (a, h1)) as [|Na]; [auto|]. destruct (ED y (b, h2)) as [|Nb]; [auto|]. right; right. apply Hrest; assumption. }
  assert (Enw : nw = (b, h2)).
  { pose proof (Hmax (b, h2) Ib) as Q. cbn [snd h2 hseq] in Q.
    destruct (CLS nw Hnw) as [->|[->|C]]; [cbn [snd h1 hseq] in Q; lia| reflexivity| cbn [snd] in *; lia]. }
  subst nw. destruct sec as [s2'|].
  2:{ specialize (Hsec (a, h1) Ia). inversion Hsec. }
  destruct Hsec as (Hs2 & Hs2n & Hs2m).
  assert (Es : s2' = (a, h1)).
  { assert (Q : (hseq (snd (a, h1)) <= hseq (snd s2'))%N) by (apply Hs2m; [exact Ia| intros C; inversion C; congruence]).
    cbn [snd h1 hseq] in Q. destruct (CLS s2' Hs2) as [->|[->|C]]; [reflexivity| contradiction| lia]. }
  subst s2'. cbn [is_awip kind_is_fw total_status h1 h2 hext hint hboot hkind hsize hcount negb andb].
  rewrite N.eqb_refl, Hfit. apply N.leb_le in Hcap. rewrite Hcap. reflexivity.
Qed.
End Complete.
