From Coq Require Import List NArith ZArith Arith Bool Lia Sorted.
Require Import Slots SlotsProof RingA Exact RingB Recover Boot Life.
Import ListNotations.

Definition slot (sl : slots) i : option hdr := match nth_error sl i with Some o => o | None => None end.
Lemma hd_at_slot sl i h : hd_at sl i h <-> slot sl i = Some h.
Proof. unfold hd_at, slot. destruct (nth_error sl i) as [[x|]|]; split; intros H; inversion H; reflexivity. Qed.
Lemma slot_set sl i o j : (i < length sl)%nat -> slot (setnth sl i o) j = if Nat.eqb j i then o else slot sl j.
Proof. intros L. unfold slot. rewrite nth_error_setnth. destruct (Nat.eqb j i); [|reflexivity]. destruct (Nat.ltb_spec i (length sl)); [reflexivity| lia]. Qed.
Lemma hd_at_lt sl i h : hd_at sl i h -> (i < length sl)%nat.
Proof. intros H. apply nth_error_Some. unfold hd_at in H. congruence. Qed.
Lemma seqat_slot sl i : seqat sl i = option_map hseq (slot sl i).
Proof. unfold seqat, slot. destruct (nth_error sl i) as [[h|]|]; reflexivity. Qed.

Definition hcls (o : option hdr) : bool * bool * bool :=
  match o with
  | None => (false, false, false)
  | Some h => (match awaiting h with Some false => true | _ => false end,
               match awaiting h with Some true => true | _ => false end, is_confirmed h)
  end.
Definition oeq (o : option nat) i := match o with Some j => Nat.eqb j i | None => false end.
Definition gcls (g : ghost) i : bool * bool * bool := (oeq (copy g) i, oeq (ack g) i, existsb (Nat.eqb i) (conf g)).

Lemma oeq_iff o i : oeq o i = true <-> o = Some i.
Proof. unfold oeq. destruct o as [j|]; [|split; discriminate]. rewrite Nat.eqb_eq. split; intros H; [now subst| now inversion H]. Qed.
Lemma exb_iff i l : existsb (Nat.eqb i) l = true <-> In i l.
Proof. rewrite existsb_exists. split; [intros (x & A & B); apply Nat.eqb_eq in B; now subst| intros A; exists i; split; [exact A| apply Nat.eqb_refl]]. Qed.
Lemma oeq_drop i o j : oeq (odrop i o) j = if Nat.eqb j i then false else oeq o j.
Proof.
  unfold odrop, oeq. destruct o as [k|]; [|now destruct (Nat.eqb j i)].
  destruct (Nat.eqb_spec k i), (Nat.eqb_spec j i); subst; cbn; try reflexivity.
  - destruct (Nat.eqb_spec i j); congruence. - destruct (Nat.eqb_spec k i); congruence.
Qed.
Lemma exb_remove i l j : existsb (Nat.eqb j) (remove Nat.eq_dec i l) = if Nat.eqb j i then false else existsb (Nat.eqb j) l.
Proof.
  destruct (Nat.eqb_spec j i) as [->|NE].
  - destruct (existsb _ _) eqn:E; [|reflexivity]. apply exb_iff in E. apply remove_In in E. contradiction.
  - destruct (existsb (Nat.eqb j) l) eqn:E.
    + apply exb_iff. apply in_in_remove; [exact NE| apply exb_iff; exact E].
    + destruct (existsb _ (remove _ _ _)) eqn:E2; [|reflexivity]. apply exb_iff in E2. apply in_remove in E2. destruct E2 as [E2 _]. apply exb_iff in E2. congruence.
Qed.
Lemma gcls_drop i g j : gcls (gdrop i g) j = if Nat.eqb j i then (false, false, false) else gcls g j.
Proof. unfold gcls, gdrop. cbn [copy ack conf]. rewrite !oeq_drop, exb_remove. destruct (Nat.eqb j i); reflexivity. Qed.

Definition seqsub (sl' sl : slots) := forall k s, seqat sl' k = Some s -> seqat sl k = Some s.
Lemma sub_of sl' sl : length sl' = length sl -> seqsub sl' sl -> sub sl' sl.
Proof. intros L S. split; assumption. Qed.

Lemma seqlt_agree sl sl' j i : seqlt sl j i -> seqat sl' j = seqat sl j -> seqat sl' i = seqat sl i -> seqlt sl' j i.
Proof. intros H A B sj si. rewrite A, B. apply H. Qed.
Lemma seqlt_none sl j i : seqat sl j = None \/ seqat sl i = None -> seqlt sl j i.
Proof. intros [H|H] sj si A B; congruence. Qed.

Lemma SS_remove (R : nat -> nat -> Prop) i l : StronglySorted R l -> StronglySorted R (remove Nat.eq_dec i l).
Proof.
  induction 1 as [|a l SS IH FA]; cbn [remove]; [constructor|]. destruct (Nat.eq_dec i a); [exact IH|].
  constructor; [exact IH|]. rewrite Forall_forall in *. intros x Hx. apply in_remove in Hx. apply FA. tauto.
Qed.
Lemma SS_mono (R R' : nat -> nat -> Prop) l : (forall a b, In a l -> In b l -> R a b -> R' a b) -> StronglySorted R l -> StronglySorted R' l.
Proof.
  intros M SS. induction SS as [|a l SS IH FA]; [constructor|]. constructor.
  - apply IH. intros x y Hx Hy. apply M; right; assumption.
  - rewrite Forall_forall in *. intros x Hx. apply M; [left; reflexivity| right; exact Hx| apply FA; exact Hx].
Qed.

Lemma newest_pair_keep sl sl' f p : newest_pair sl f p -> slot sl' f = slot sl f -> slot sl' p = slot sl p ->
  (forall j s, j <> f -> j <> p -> seqat sl' j = Some s -> seqat sl j = Some s) -> newest_pair sl' f p.
Proof.
  intros (hf & hp & A & B & C & D & E & F & G & H & K) Sf Sp Sub. exists hf, hp.
  split; [apply hd_at_slot; rewrite Sf; apply hd_at_slot; exact A|]. split; [apply hd_at_slot; rewrite Sp; apply hd_at_slot; exact B|].
  repeat (split; [assumption|]). intros j sj Nf Np Hj. apply (K j sj Nf Np). apply Sub; assumption.
Qed.

Section Pres.
Variable NS : nat.
Hypothesis HN : (4 <= NS)%nat.

Record Inv2 (st : state) : Prop := {
  J_reach : reach NS (fst (fst st));
  J_cls : forall i, hcls (slot (fst (fst st)) i) = gcls (snd (fst st)) i;
  J_one : copy (snd (fst st)) = None \/ ack (snd (fst st)) = None;
  J_desc : StronglySorted (fun i j => seqlt (fst (fst st)) j i) (conf (snd (fst st)));
  J_newer : forall i j, copy (snd (fst st)) = Some i \/ ack (snd (fst st)) = Some i -> In j (conf (snd (fst st))) -> seqlt (fst (fst st)) j i;
  J_live : forall f p, snd st = Some (f, p) -> newest_pair (fst (fst st)) f p
}.

Lemma cls_parts sl g : (forall i, hcls (slot sl i) = gcls g i) ->
  (forall i h, hd_at sl i h -> (awaiting h = Some false <-> copy g = Some i) /\ (awaiting h = Some true <-> ack g = Some i) /\ (is_confirmed h = true <-> In i (conf g))) /\
  (forall i, copy g = Some i \/ ack g = Some i \/ In i (conf g) -> exists h, hd_at sl i h).
Proof.
  intros C. split.
  - intros i h Hh. specialize (C i). apply hd_at_slot in Hh. rewrite Hh in C. unfold hcls, gcls in C. inversion C as [[C1 C2 C3]].
    rewrite <- !oeq_iff, <- exb_iff, <- C1, <- C2, <- C3. destruct (awaiting h) as [[|]|]; repeat split; intros; congruence.
  - intros i H. specialize (C i). destruct (slot sl i) as [h|] eqn:E; [exists h; apply hd_at_slot; exact E|]. exfalso.
    unfold hcls, gcls in C. inversion C as [[C1 C2 C3]]. destruct H as [H|[H|H]].
    + apply oeq_iff in H. congruence. + apply oeq_iff in H. congruence. + apply exb_iff in H. congruence.
Qed.

Lemma Inv2_Inv st : Inv2 st -> Inv NS st.
Proof.
  intros J. destruct (cls_parts _ _ (J_cls _ J)) as [P Q]. constructor; try apply J.
  - intros i h H. apply (P i h H). - intros i h H. apply (P i h H). - intros i h H. apply (P i h H).
  - intros i H. apply Q. auto. - intros i H. apply Q. auto. - intros i H. apply Q. auto.
Qed.

Lemma Inv2_init : Inv2 (repeat None NS, mkg None None [], None).
Proof.
  constructor; cbn [fst snd copy ack conf].
  - constructor.
  - intros i. unfold slot. destruct (nth_error (repeat None NS) i) as [o|] eqn:E; [apply nth_error_In, repeat_spec in E; subst o|]; reflexivity.
  - left; reflexivity. - constructor. - intros i j _ []. - intros f p H; discriminate.
Qed.

Lemma seqlt_sub sl sl' j a : seqsub sl' sl -> seqlt sl j a -> seqlt sl' j a.
Proof. intros S H sj sa A B. apply H; apply S; assumption. Qed.

Lemma inv2_lv sl g lv lv' : Inv2 (sl, g, lv) -> (forall f p, lv' = Some (f, p) -> newest_pair sl f p) -> Inv2 (sl, g, lv').
Proof. intros J H. constructor; try apply J. exact H. Qed.

Lemma inv2_upd sl g lv i h h' g' lv' : Inv2 (sl, g, lv) -> hd_at sl i h -> hseq h' = hseq h ->
  hcls (Some h') = gcls g' i -> (forall j, j <> i -> gcls g' j = gcls g j) ->
  (copy g' = None \/ ack g' = None) ->
  StronglySorted (fun x y => seqlt sl y x) (conf g') ->
  (forall a j, copy g' = Some a \/ ack g' = Some a -> In j (conf g') -> seqlt sl j a) ->
  (forall f p, lv' = Some (f, p) -> lv = Some (f, p) /\ i <> f /\ i <> p) ->
  Inv2 (setnth sl i (Some h'), g', lv').
Proof.
  intros J Hh Hs Ci Co One D Nw Lv. pose proof (hd_at_lt _ _ _ Hh) as L.
  assert (SQ : forall j, seqat (setnth sl i (Some h')) j = seqat sl j).
  { intros j. rewrite !seqat_slot, slot_set by exact L. destruct (Nat.eqb_spec j i) as [->|]; [|reflexivity].
    apply hd_at_slot in Hh. rewrite Hh. cbn. now rewrite Hs. }
  assert (LT : forall x y, seqlt sl y x -> seqlt (setnth sl i (Some h')) y x) by (intros x y H; apply (seqlt_agree sl); auto).
  constructor; cbn [fst snd].
  - apply (reach_sub NS sl); [apply J|]. apply sub_of; [apply setnth_length|]. intros k s. now rewrite SQ.
  - intros j. rewrite slot_set by exact L. destruct (Nat.eqb_spec j i) as [->|NE]; [exact Ci|]. rewrite Co by exact NE. apply (J_cls _ J).
  - exact One.
  - apply (SS_mono _ _ _ (fun a b _ _ H => LT a b H) D).
  - intros a j Ha Hj. apply LT. apply (Nw a j Ha Hj).
  - intros f p E. destruct (Lv f p E) as (E0 & Nf & Np). apply (newest_pair_keep sl); [apply (J_live _ J); exact E0| | |].
    + rewrite slot_set by exact L. destruct (Nat.eqb_spec f i); [congruence| reflexivity].
    + rewrite slot_set by exact L. destruct (Nat.eqb_spec p i); [congruence| reflexivity].
    + intros j s _ _. now rewrite SQ.
Qed.

Lemma inv2_erase sl g lv i lv' : Inv2 (sl, g, lv) -> (i < length sl)%nat ->
  (forall f p, lv' = Some (f, p) -> lv = Some (f, p) /\ i <> f /\ i <> p) ->
  Inv2 (setnth sl i None, gdrop i g, lv').
Proof.
  intros J L Lv.
  assert (SS : seqsub (setnth sl i None) sl).
  { intros k s. rewrite !seqat_slot, slot_set by exact L. destruct (Nat.eqb k i); [discriminate| auto]. }
  constructor; cbn [fst snd].
  - apply (reach_sub NS sl); [apply J|]. apply sub_of; [apply setnth_length| exact SS].
  - intros j. rewrite slot_set by exact L. rewrite gcls_drop. destruct (Nat.eqb j i); [reflexivity| apply (J_cls _ J)].
  - destruct (J_one _ J) as [H|H]; cbn [fst snd] in H; [left|right]; unfold gdrop; cbn [copy ack]; rewrite H; reflexivity.
  - unfold gdrop; cbn [conf]. apply SS_remove. apply (SS_mono _ _ _ (fun a b _ _ H => seqlt_sub sl _ b a SS H) (J_desc _ J)).
  - intros a j Ha Hj. apply (seqlt_sub sl _ j a SS). apply (J_newer _ J); cbn [fst snd].
    + unfold gdrop in Ha; cbn [copy ack] in Ha. destruct Ha as [Ha|Ha]; [left|right];
        [destruct (copy g) as [c|]| destruct (ack g) as [c|]]; cbn [odrop] in Ha; try discriminate; destruct (Nat.eqb c i); congruence.
    + unfold gdrop in Hj; cbn [conf] in Hj. apply in_remove in Hj. tauto.
  - intros f p E. destruct (Lv f p E) as (E0 & Nf & Np). apply (newest_pair_keep sl); [apply (J_live _ J); exact E0| | |].
    + rewrite slot_set by exact L. destruct (Nat.eqb_spec f i); [congruence| reflexivity].
    + rewrite slot_set by exact L. destruct (Nat.eqb_spec p i); [congruence| reflexivity].
    + intros j s _ _. apply SS.
Qed.
End Pres.
