module List = Stdlib.List
module String = Stdlib.String
module Bytes = Stdlib.Bytes
module Buffer = Stdlib.Buffer
module Char = Stdlib.Char
open BinNums
open Datatypes
open Util

(* lfdbt stream: `M N` -> new:<mask> orig:<mask> lfdbt:<mask>   (args: ffr = the force-full-r build).
   The model returns the list of drawn positions; the mask is assembled here (printing glue). *)
let hex_of_positions (m : int) (l : coq_N list) : string =
  let nb = (m + 7) / 8 + 1 in
  let b = Bytes.make nb '\000' in
  List.iter (fun p -> let p = int_of_n p in
              Bytes.set b (p / 8) (Char.chr (Char.code (Bytes.get b (p / 8)) lor (1 lsl (p mod 8))))) l;
  let buf = Buffer.create (2 * nb) in
  for i = nb - 1 downto 0 do Buffer.add_string buf (Printf.sprintf "%02x" (Char.code (Bytes.get b i))) done;
  let s = Buffer.contents buf in
  let n = String.length s in
  let rec skip i = if i < n - 1 && s.[i] = '0' then skip (i + 1) else i in
  let i = skip 0 in String.sub s i (n - i)

let run args =
  let ffr = List.mem "ffr" args in
  let fuel = nat_of_int 100000 in
  iter_lines (fun line ->
    match List.map int_of_string (words line) with
    | [m; n] ->
      let (a, c) = Lfdbt.rows_for ffr fuel (n_of_int m) (n_of_int n) in
      let sh = function Some l -> hex_of_positions m l | None -> "nonterminating" in
      (* n = 0 is asserted against in fragmentation.rs *)
      let a = if n = 0 then "panic" else sh a in
      Printf.printf "new:%s orig:%s lfdbt:%s\n" a a (sh c)
    | _ -> print_endline "?")
