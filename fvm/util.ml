module List = Stdlib.List
module String = Stdlib.String
module Buffer = Stdlib.Buffer
module Char = Stdlib.Char
open BinNums
open Datatypes
(* glue between text case files and the extracted inductive number types; no arithmetic on model values *)


let rec pos_of_int (i : int) : positive =
  if i = 1 then Coq_xH else if i land 1 = 0 then Coq_xO (pos_of_int (i lsr 1)) else Coq_xI (pos_of_int (i lsr 1))
let n_of_int (i : int) : coq_N = if i = 0 then N0 else Npos (pos_of_int i)
let rec nat_of_int (i : int) : nat = if i <= 0 then O else S (nat_of_int (i - 1))
let int_of_nat (k : nat) : int = let rec go acc = function O -> acc | S k -> go (acc + 1) k in go 0 k
let rec int_of_pos = function Coq_xH -> 1 | Coq_xO p -> 2 * int_of_pos p | Coq_xI p -> 2 * int_of_pos p + 1
let int_of_n = function N0 -> 0 | Npos p -> int_of_pos p

(* big values: hex strings <-> positive, structurally *)
let hexdigit c =
  if c >= '0' && c <= '9' then Char.code c - 48
  else if c >= 'a' && c <= 'f' then Char.code c - 87
  else if c >= 'A' && c <= 'F' then Char.code c - 55
  else failwith ("bad hex digit " ^ String.make 1 c)

let n_of_hex (s : string) : coq_N =
  (* most significant digit first *)
  let acc = ref None in
  String.iter (fun c ->
    let d = hexdigit c in
    for k = 3 downto 0 do
      let b = (d lsr k) land 1 in
      acc := (match !acc with
        | None -> if b = 1 then Some Coq_xH else None
        | Some p -> Some (if b = 1 then Coq_xI p else Coq_xO p))
    done) s;
  match !acc with None -> N0 | Some p -> Npos p

let hex_of_n (v : coq_N) : string =
  match v with
  | N0 -> "0"
  | Npos p ->
    let rec bits p acc = match p with Coq_xH -> 1 :: acc | Coq_xO q -> bits q (0 :: acc) | Coq_xI q -> bits q (1 :: acc) in
    let bl = bits p [] in
    let l = List.length bl in
    let pad = (4 - l mod 4) mod 4 in
    let bl = List.init pad (fun _ -> 0) @ bl in
    let buf = Buffer.create 16 in
    let rec go = function
      | a :: b :: c :: d :: tl -> Buffer.add_char buf "0123456789abcdef".[a * 8 + b * 4 + c * 2 + d]; go tl
      | _ -> () in
    go bl; Buffer.contents buf

(* byte strings: "aabbcc" (or "-" for empty) <-> list of N bytes *)
let bytes_of_hex (s : string) : coq_N list =
  if s = "-" then [] else
  List.init (String.length s / 2) (fun i -> n_of_int (hexdigit s.[2 * i] * 16 + hexdigit s.[2 * i + 1]))
let hex_of_bytes (l : coq_N list) : string =
  String.concat "" (List.map (fun b -> Printf.sprintf "%02x" (int_of_n b)) l)

(* little-endian byte string <-> one big N (block values) *)
let n_of_le_hex (s : string) : coq_N =
  if s = "-" then N0 else
  let k = String.length s / 2 in
  let b = Buffer.create (2 * k) in
  for i = k - 1 downto 0 do Buffer.add_string b (String.sub s (2 * i) 2) done;
  n_of_hex (Buffer.contents b)
let le_hex_of_n (v : coq_N) (len : int) : string =
  let h = hex_of_n v in
  let h = if String.length h mod 2 = 1 then "0" ^ h else h in
  let k = String.length h / 2 in
  let b = Buffer.create (2 * len) in
  for i = 0 to len - 1 do
    if i < k then Buffer.add_string b (String.sub h (2 * (k - 1 - i)) 2) else Buffer.add_string b "00"
  done;
  Buffer.contents b

let words s = List.filter (fun x -> x <> "") (String.split_on_char ' ' (String.trim s))
let iter_lines f = try while true do f (input_line stdin) done with End_of_file -> ()
let rec firstn k l = if k <= 0 then [] else match l with [] -> [] | x :: tl -> x :: firstn (k - 1) tl
