module List = Stdlib.List
module String = Stdlib.String
open BinNums
open Datatypes
open Util

(* adapters stream over the extracted model Adapt.v; mirrors harness/src/cmd_adapters.rs *)
let cap = 8192 and erase = 256

let fmt_log (ops : Adapt.wop list) =
  if ops = [] then "" else
  "[" ^ String.concat "," (List.map (function
    | Adapt.WWrite (a, bs, z) -> Printf.sprintf "W@%x:%s%s" (int_of_n a) (if bs = [] then "-" else hex_of_bytes bs) (if z then "!" else "")
    | Adapt.WRead (a, len) -> Printf.sprintf "R@%x+%x" (int_of_n a) (int_of_n len)
    | Adapt.WErase (a, b) -> Printf.sprintf "E@%x-%x" (int_of_n a) (int_of_n b)) ops) ^ "]"

let run () =
  iter_lines (fun line ->
    match String.index_opt line '|' with
    | None -> print_endline "?"
    | Some p ->
      let hd = words (String.sub line 0 p) and body = String.sub line (p + 1) (String.length line - p - 1) in
      (match hd with
       | kind :: w :: r :: nb :: start :: len :: rest when List.length rest <= 1 ->
         let init = (match rest with [i] -> i | _ -> "z") in
         let w = int_of_string w and r = int_of_string r and nb = int_of_string nb and start = int_of_string start and len = int_of_string len in
         let dev = ref (Adapt.fresh_dev (n_of_int cap) (n_of_int w) (n_of_int r) (n_of_int erase)) in
         (* initial contents (mirrors init_mem of the harness); the default is fresh_dev's all-zero device *)
         let k = (try int_of_string (String.sub init 1 (String.length init - 1)) with _ -> 0) in
         let ff = n_of_int 255 and zz = n_of_int 0 in
         (match init.[0] with
          | 'b' -> dev := { !dev with Adapt.wm = (fun _ -> ff) }
          | 't' -> let e = start + len in let lo = max start (e - k) in
                   dev := { !dev with Adapt.wm = (fun a -> let x = int_of_n a in if x >= lo && x < e then zz else ff) }
          | 'h' -> let hi = min (start + k) (start + len) in
                   dev := { !dev with Adapt.wm = (fun a -> let x = int_of_n a in if x >= start && x < hi then zz else ff) }
          | 'a' -> dev := { !dev with Adapt.wm = (fun a -> if int_of_n a mod 2 = 0 then n_of_int 0xA5 else ff) }
          | _ -> ());
         let mark = ref 0 in
         let take () = let l = (!dev).Adapt.wlog in
           let fresh = List.rev (firstn (List.length l - !mark) l) in mark := List.length l; fmt_log fresh in
         let out = ref [] in
         (* new: the asserts on the write size, then the erase of the range *)
         let new_ok =
           if w > 32 || not (let q = w / r in q > 0 && q land (q - 1) = 0) then (out := ["panic"]; false) else begin
             let (d, ok) = Adapt.w_erase !dev (n_of_int start) (n_of_int (start + len)) in
             dev := d;
             out := [(if ok then "new" else "newerr") ^ take ()]; ok end in
         if new_ok then
           List.iter (fun op ->
             match words op with
             | [] -> ()
             | "s" :: i :: h :: _ ->
               let i = n_of_int (int_of_string i) and data = bytes_of_hex h in
               let (d, res) = (match kind with
                 | "D" -> Adapt.data_store (n_of_int start) !dev i data
                 | "P" -> Adapt.parity_store (n_of_int start) !dev i data
                 | _ -> let raw = firstn nb (data @ List.init nb (fun _ -> N0)) in
                        Adapt.matrix_set_row (n_of_int start) (nat_of_int nb) !dev i raw) in
               dev := d;
               out := ((match res with Adapt.AOk () -> "ok" | Adapt.AErr -> "err" | Adapt.APanic -> "panic") ^ take ()) :: !out
             | "g" :: i :: l :: _ ->
               let i = n_of_int (int_of_string i) and l = int_of_string l in
               let (d, res) = (match kind with
                 | "D" -> Adapt.data_get (n_of_int start) !dev i (nat_of_int l)
                 | "P" -> Adapt.parity_get (n_of_int start) !dev i (nat_of_int l)
                 | _ -> Adapt.matrix_row (n_of_int start) (nat_of_int nb) !dev i) in
               dev := d;
               out := ((match res with Adapt.AOk v -> if v = [] then "-" else hex_of_bytes v | Adapt.AErr -> "err" | Adapt.APanic -> "panic") ^ take ()) :: !out
             | "n" :: _ ->
               out := (if kind = "M" then string_of_int (int_of_n (Adapt.matrix_num_rows (n_of_int w) (n_of_int len) (nat_of_int nb))) else "na") :: !out
             | _ -> out := "?" :: !out) (String.split_on_char ';' body);
         print_endline (String.concat " ; " (List.rev !out))
       | _ -> print_endline "?"))
