module List = Stdlib.List
module String = Stdlib.String
module Array = Stdlib.Array
module Hashtbl = Stdlib.Hashtbl
open BinNums
open Datatypes
open Util
open Cmd_session

(* interpreter of V1 scripts (deprecated manager: `orig`; single-erasure back-end of flash-algo-new: `naive`) over V1.v / Orig.v;
   mirrors harness/src/cmd_orig.rs and cmd_naive.rs.  No read counts in the tokens (the read pattern is not modelled exactly). *)
let run_case ~(orig : bool) ~(ffr : bool) (nslots : int) (slot : int) (blk : int) (ops : string list) : string =
  let m = { Mgr.m_slots = nat_of_int nslots; m_size = n_of_int slot } in
  let dev = ref (Mgr.blank_dev (n_of_int (nslots * slot)) (n_of_int blk)) in
  let fl = { tbl = Hashtbl.create 4096; gen = Array.make (nslots * slot / blk + 2) 0 } in
  let sess : V1.v1 option ref = ref None in
  let dead = ref false in
  let crash : (int * (coq_N * coq_N) option) option ref = ref None in
  let wops () = List.length (!dev).Mgr.dlog in
  let counters (u : V1.v1) =
    if orig then Printf.sprintf "r=%d/%d/%d" (int_of_n u.V1.v_rf) (int_of_n u.V1.v_tf) (int_of_n u.V1.v_rp)
    else let tf = int_of_n u.V1.v_tf and rf = int_of_n u.V1.v_rf in
      Printf.sprintf "r=%d/%d/%d/%d" (if tf > rf then tf - rf else 0) tf rf (if rf = 0 then 1 else 0) in
  let out = ref [] in
  List.iter (fun op ->
    match words op with
    | [] -> ()
    | cmd :: args ->
      let before = !dev in
      let w0 = wops () in
      let passive = List.mem cmd ["crash"; "reboot"; "raw"; "drop"; "hdrs"; "dump"] in
      let tok =
        if !dead && not passive then "X" else
        match cmd, args with
        | "start", [sz; cnt] ->
          sess := None;
          let szn = n_of_hex (Printf.sprintf "%x" (int_of_string sz)) and cn = n_of_hex (Printf.sprintf "%x" (int_of_string cnt)) in
          let (d, r) = if orig then Orig.orig_start m szn cn !dev else V1.naive_start m szn cn !dev in
          dev := d;
          (match r with Mgr.RPanic -> "panic" | Mgr.RErr e -> "err:" ^ merr_name e | Mgr.ROk u -> sess := Some u; "ok:" ^ counters u)
        | "seg", idx :: rest ->
          let payload = match rest with [h] -> h | _ -> "-" in
          let plen = if payload = "-" then 0 else String.length payload / 2 in
          (match !sess with
           | None -> "nosession"
           | Some u ->
             let ((d, u'), r) = V1.v1_handle orig ffr m u (n_of_hex (Printf.sprintf "%x" (int_of_string idx))) (n_of_le_hex payload) (n_of_int plen) !dev in
             dev := Mgr.clear_flags d;
             (match r with
              | Mgr.RPanic -> sess := None; "panic"
              | Mgr.RErr e -> sess := Some u'; "err:" ^ merr_name e ^ ":" ^ counters u'
              | Mgr.ROk false -> sess := Some u'; "C:" ^ counters u'
              | Mgr.ROk true -> sess := Some u'; "F:" ^ counters u'))
        | "done", [] ->
          (match !sess with
           | None -> "nosession"
           | Some u -> sess := None;
             let (d, r) = V1.v1_done m u !dev in
             dev := d;
             (match r with Mgr.RPanic -> "panic" | Mgr.RErr e -> "err:" ^ merr_name e | Mgr.ROk i -> Printf.sprintf "ok:%d" (int_of_nat i)))
        | "drop", [] -> sess := None; "-"
        | "recover", [] ->
          sess := None;
          let (d, r) = if orig then Orig.orig_app_boot_status m !dev else V1.naive_recover m !dev in
          dev := d;
          (match r with Mgr.RPanic -> "panic" | Mgr.RErr e -> "err:" ^ merr_name e | Mgr.ROk None -> "none"
                      | Mgr.ROk (Some u) -> sess := Some u; "some:" ^ counters u)
        | "cancel", [] ->
          let (d, r) = if orig then Orig.orig_cancel m !dev else Mgr.cancel_all_ext_pending m !dev in
          dev := d;
          (match r with Mgr.RPanic -> "panic" | Mgr.RErr e -> "err:" ^ merr_name e | Mgr.ROk () -> "ok")
        | "bl", [] ->
          let (d, r) = if orig then Orig.orig_bl_boot_status m !dev else Mgr.bl_boot_status m !dev in
          dev := d;
          (match r with
           | Mgr.RPanic -> "panic" | Mgr.RErr e -> "err:" ^ merr_name e
           | Mgr.ROk Boot.Idle -> "idle"
           | Mgr.ROk (Boot.IncompleteInternal i) -> Printf.sprintf "inc:%d" (int_of_nat i)
           | Mgr.ROk (Boot.FailedLoad i) -> Printf.sprintf "fail:%d" (int_of_nat i))
        | "crash", k :: rest ->
          let torn = match rest with [j; keep] -> Some (n_of_int (int_of_string j), n_of_hex keep) | _ -> None in
          crash := Some (wops () + int_of_string k, torn); "-"
        | "reboot", [] -> sess := None; dead := false; crash := None; dev := Mgr.with_mem !dev (!dev).Mgr.dmem; "-"
        | "raw", [a; h] ->
          let len = String.length h / 2 in
          let a = int_of_string ("0x" ^ a) in
          if a + len <= nslots * slot then dev := flatten fl blk (Mgr.poke !dev (n_of_int a) (n_of_int len) (n_of_le_hex h)) [] [(a, len)];
          "-"
        | "dump", [i; off; len] ->
          let a = int_of_string i * slot + int_of_string ("0x" ^ off) and len = int_of_string len in
          if a + len <= nslots * slot then (if len = 0 then "" else le_hex_of_n (Nor.read (!dev).Mgr.dmem (n_of_int a) (n_of_int len)) len) else "oob"
        | "hdrs", [] ->
          String.concat "," (List.init nslots (fun i ->
            let v = Nor.read (!dev).Mgr.dmem (n_of_int (i * slot)) (n_of_int 28) in
            let bs = Mgr.bytes_of_val v (nat_of_int 28) in
            match Layout.parse bs with None -> "-" | Some _ -> hex_of_bytes bs))
        | _ -> "?" in
      let newops = List.rev (firstn (wops () - w0) (!dev).Mgr.dlog) in
      let tok, shown =
        match !crash with
        | Some (at, torn) when (not !dead) && not passive && at < w0 + List.length newops ->
          let k = at - w0 in
          let mem' = Mgr.crash_mem (n_of_int blk) before.Mgr.dmem newops (nat_of_int k) torn in
          let d0 = Mgr.with_mem before mem' in
          let keep = firstn k newops in
          let torn_range = match List.nth_opt newops k with Some (Mgr.FProg (a, len, _, _)) -> [(int_of_n a, int_of_n len)] | _ -> [] in
          dev := flatten fl blk { d0 with Mgr.dlog = List.rev_append keep before.Mgr.dlog } keep torn_range;
          dead := true; crash := None; sess := None;
          "X", keep
        | _ -> dev := flatten fl blk !dev newops []; tok, newops in
      let lg = fmt_ops blk shown in
      out := (if lg = "" then tok else tok ^ "[" ^ lg ^ "]") :: !out) ops;
  String.concat " ; " (List.rev !out)

let run ~(orig : bool) args =
  let ffr = List.mem "ffr" args in
  iter_lines (fun line ->
    match String.index_opt line '|' with
    | None -> print_endline "?"
    | Some p ->
      let hd = String.sub line 0 p and body = String.sub line (p + 1) (String.length line - p - 1) in
      (match List.map int_of_string (words hd) with
       | [ns; slot; blk] when ns >= 3 && ns <= 6 ->
         print_endline (run_case ~orig ~ffr ns slot blk (List.map String.trim (String.split_on_char ';' body)))
       | _ -> print_endline "?slots"))
