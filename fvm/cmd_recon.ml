module List = Stdlib.List
module String = Stdlib.String
open BinNums
open Datatypes
open Util

let pairs s =
  List.filter_map (fun t ->
      let t = String.trim t in
      if t = "" then None else
      match String.split_on_char ':' t with
      | [a; b] -> Some (nat_of_int (int_of_string a), n_of_hex b)
      | _ -> None) (String.split_on_char ',' s)

let run () =
  iter_lines (fun line ->
    match String.split_on_char '|' line with
    | [hd; tb; bl] ->
      let w = words hd in
      let geti k = int_of_string (List.nth w k) in
      let n = geti 0 and cap = geti 1 and vb = geti 2 and bs = geti 3 in
      let fail = match List.nth_opt w 4 with Some "-" | None -> None | Some x -> Some (nat_of_int (int_of_string x)) in
      let (((rs, evs), dat), ((dn, us), l)) =
        MRecon.run_case (nat_of_int n) (nat_of_int cap) (nat_of_int vb) (n_of_int bs) fail (pairs tb) (pairs bl) in
      (* fault-free cases: the model the theorems are proved about (Recon.v) must agree with the fault-aware one *)
      let internal_ok =
        if fail <> None then true else begin
          let nn = nat_of_int n in
          let ((st2, rs2), evs2) = Recon.run (MRecon.matrix_of nn (pairs tb)) (nat_of_int cap) (nat_of_int vb) (Recon.init nn (n_of_int bs)) (pairs bl) in
          let same_r = List.length rs = List.length rs2 && List.for_all2 (fun (a, _) b -> match a, b with
              | MRecon.Ok MRecon.NeedMore, Recon.NeedMore | MRecon.Ok MRecon.TooManyMissing, Recon.TooManyMissing -> true
              | MRecon.Ok (MRecon.Done x), Recon.Done y -> x = y | _ -> false) rs rs2 in
          let same_e = List.length evs = List.length evs2 && List.for_all2 (fun a b -> match a, b with
              | MRecon.EDataStore (i, x), Recon.EDataStore (j, y) | MRecon.EParStore (i, x), Recon.EParStore (j, y)
              | MRecon.EMatSet (i, x), Recon.EMatSet (j, y) -> i = j && x = y
              | MRecon.EDataGet i, Recon.EDataGet j | MRecon.EParGet i, Recon.EParGet j | MRecon.EMatGet i, Recon.EMatGet j -> i = j
              | _ -> false) evs evs2 in
          let same_d = List.for_all2 (fun a i -> a = st2.Recon.dat (nat_of_int i)) dat (List.init n (fun i -> i)) in
          same_r && same_e && same_d end in
      let cuts = List.map (fun (_, k) -> int_of_nat k) rs in
      let rs = List.map fst rs in
      let r_s = String.concat "," (List.map (function
          | MRecon.StorageError -> "E"
          | MRecon.Ok MRecon.NeedMore -> "N" | MRecon.Ok MRecon.TooManyMissing -> "T"
          | MRecon.Ok (MRecon.Done len) -> "D" ^ hex_of_n len) rs) in
      let e_l = (List.map (function
          | MRecon.EDataStore (i, b) -> Printf.sprintf "ds%d=%s" (int_of_nat i) (hex_of_n b)
          | MRecon.EDataGet i -> Printf.sprintf "dg%d" (int_of_nat i)
          | MRecon.EParStore (m, b) -> Printf.sprintf "ps%d=%s" (int_of_nat m) (hex_of_n b)
          | MRecon.EParGet m -> Printf.sprintf "pg%d" (int_of_nat m)
          | MRecon.EMatSet (m, r) -> Printf.sprintf "ms%d=%s" (int_of_nat m) (hex_of_n r)
          | MRecon.EMatGet m -> Printf.sprintf "mg%d" (int_of_nat m)
          | MRecon.EFail -> "F") evs) in
      (* cut the flat log per call: call k owns entries [cut(k-1), cut(k)) ; each call ends with ';' *)
      let buf = Stdlib.Buffer.create 256 in
      let rec go i evl cuts = match cuts with
        | [] -> ()
        | c :: ctl ->
          let rec take i evl first = if i >= c then (i, evl) else match evl with
            | [] -> (i, [])
            | e :: tl -> (if not first then Stdlib.Buffer.add_char buf ','); Stdlib.Buffer.add_string buf e; take (i + 1) tl false in
          let (i', evl') = take i evl true in
          Stdlib.Buffer.add_char buf ';'; go i' evl' ctl in
      go 0 e_l cuts;
      let e_s = Stdlib.Buffer.contents buf in
      let d_s = String.concat "," (List.map (function None -> "-" | Some b -> hex_of_n b) dat) in
      let bits l = String.concat "" (List.map (fun b -> if b then "1" else "0") l) in
      if not internal_ok then print_endline "MODEL-INTERNAL-MISMATCH Recon.run vs MRecon.run_case" else
      Printf.printf "%s|%s|%s|%s/%s/%d\n" r_s e_s d_s (bits dn) (bits us) (int_of_nat l)
    | _ -> print_endline "?")
