module List = Stdlib.List
module String = Stdlib.String
module Buffer = Stdlib.Buffer
module Char = Stdlib.Char
open BinNums

open Util

let fields (h : Layout.hdr) =
  String.concat "." (List.map hex_of_n [h.kind; h.seq; h.size; h.count; h.ext; h.int_; h.boot])

let total_name = function
  | Layout.BlankSlot -> "Blank" | Layout.AppWriteInProgress -> "AppWriteInProgress" | Layout.AppWriteAborted -> "AppWriteAborted"
  | Layout.BootloadWriteInProgress -> "BootloadWriteInProgress" | Layout.FirstBootPendingAck -> "FirstBootPendingAck"
  | Layout.ConfirmedImage -> "ConfirmedImage" | Layout.RejectedImage -> "RejectedImage" | Layout.InvalidNeedsErase -> "InvalidNeedsErase"

let parse_line bs =
  let len = List.length bs in
  let r = if len < 28 then None else Layout.parse (firstn 28 bs) in
  match r with
  | None -> "new:none orig:none"
  | Some h ->
    let re = hex_of_bytes (Layout.encode h) in
    Printf.sprintf "new:%s/rest=%d/re=%s+0 orig:%s/rest=%d/re=%s+0/%s" (fields h) (len - 28) re (fields h) (len - 28) re
      (total_name (Layout.total_status h))

let encode_line (w : coq_N list) =
  match w with
  | [k; s; z; c; e; i; b] ->
    let h = { Layout.kind = k; seq = s; size = z; count = c; ext = e; int_ = i; boot = b } in
    (* the harness can only build a typed header from legal kind/status codes; seq/size/count are free *)
    let codes_ok = Layout.legal { h with seq = N0; size = n_of_int 1; count = n_of_int 1 } in
    if not codes_ok then "new:illegal-code orig:illegal-code" else
    let enc = Layout.encode h in
    let back = match Layout.parse enc with Some _ -> "same" | None -> "none" in
    Printf.sprintf "new:%s+0/short-refused/%s orig:%s+0/%s/%s" (hex_of_bytes enc) back (hex_of_bytes enc) back (total_name (Layout.total_status h))
  | _ -> "?"

let mark_line m bs =
  let mk = match m with "abort" -> Some Layout.MAbort | "complete" -> Some Layout.MComplete | "int" -> Some Layout.MInt
                      | "ok" -> Some Layout.MBootOk | "bad" -> Some Layout.MBootBad | _ -> None in
  match mk with
  | None -> "?"
  | Some mk ->
    let after = Layout.apply_mark mk bs in
    let (off, code) = Layout.mark_field mk in
    (* the program operation: address = slot 1 base + offset, data = the code, little-endian; `!` if a 0 -> 1 was needed *)
    let addr = 17664 + int_of_n off in
    let cb = le_hex_of_n code 4 in
    let old = List.filteri (fun i _ -> i >= int_of_n off && i < int_of_n off + 4) bs in
    let newb = bytes_of_hex cb in
    let z2o = List.exists2 (fun o n -> (lnot (int_of_n o)) land (int_of_n n) land 255 <> 0) old newb in
    let one = Printf.sprintf "ok/%s/W@%x:%s%s" (hex_of_bytes after) addr cb (if z2o then "!" else "") in
    Printf.sprintf "new:%s orig:%s" one (if m = "complete" then "na" else one)

let run () =
  iter_lines (fun line ->
    match words line with
    | "P" :: rest -> print_endline (parse_line (bytes_of_hex (match rest with [h] -> h | _ -> "-")))
    | "E" :: ws -> print_endline (encode_line (List.map n_of_hex ws))
    | ["M"; m; h] -> print_endline (mark_line m (bytes_of_hex h))
    | [] -> ()
    | _ -> print_endline "?")
