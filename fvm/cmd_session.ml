module List = Stdlib.List
module String = Stdlib.String
module Buffer = Stdlib.Buffer
module Array = Stdlib.Array
module Hashtbl = Stdlib.Hashtbl
open BinNums
open Datatypes
open Util

(* interpreter of session scripts over the extracted byte-level model (Mgr.v); mirrors harness/src/cmd_session.rs *)

let ferr_name = function Mgr.EUnaligned -> "Unaligned" | Mgr.EOob -> "OutOfBounds" | Mgr.EHw -> "HardwareFailure" | Mgr.ELogic -> "LogicError"
let merr_name = function
  | Mgr.MSpi e -> "Spi(" ^ ferr_name e ^ ")" | Mgr.MTooManySegments -> "TooManySegments" | Mgr.MSegmentsTooLarge -> "SegmentsTooLarge"
  | Mgr.MCrc32Mismatch -> "Crc32Mismatch" | Mgr.MCheckFailNotDone -> "CheckFailNotDone" | Mgr.MCheckFailNotFirmware -> "CheckFailNotFirmware"
  | Mgr.MUnexpectedMissingHeader -> "UnexpectedMissingHeader" | Mgr.MFatal -> "Fatal"

let checked_build = ref true
let counters (u : Mgr.updater) =
  let r = int_of_nat (Mgr.received u) and t = int_of_nat (Mgr.total u) in
  (* remaining = total - received in u32 arithmetic: panics in an overflow-checked build when received > total, wraps otherwise *)
  Printf.sprintf "r=%d/%d/%s/%d" r t (if r > t then (if !checked_build then "panic" else string_of_int (t - r + 4294967296)) else string_of_int (t - r)) (if u.Mgr.u_complete then 1 else 0)

let fmt_ops (blk : int) (ops : Mgr.fop list) : string =
  let arr = Array.of_list ops in
  let n = Array.length arr in
  let out = ref [] in
  let i = ref 0 in
  while !i < n do
    (match arr.(!i) with
     | Mgr.FErase a ->
       let a0 = int_of_n a in
       let k = ref 1 in
       while !i + !k < n && (match arr.(!i + !k) with Mgr.FErase b -> int_of_n b = a0 + !k * blk | _ -> false) do incr k done;
       out := (if !k = 1 then Printf.sprintf "E@%x" a0 else Printf.sprintf "E@%x*%d" a0 !k) :: !out;
       i := !i + !k
     | Mgr.FProg (a, len, v, z) ->
       out := Printf.sprintf "W@%x:%s%s" (int_of_n a) (le_hex_of_n v (int_of_n len)) (if z then "!" else "") :: !out;
       incr i)
  done;
  String.concat "," (List.rev !out)

(* Memory flattening (performance only): the model's memory is a function N -> N built by layering one closure per
   program / erase.  After every operation the bytes of the ranges that operation touched (they are in its log; programs and
   erases change nothing outside their range: Nor.program_outside) are evaluated once and cached in a table, and the memory
   is replaced by the extensionally equal table lookup.  FVM_NOFLAT=1 switches this off (used to cross-check the glue). *)
let noflat = (try Sys.getenv "FVM_NOFLAT" = "1" with Not_found -> false)
type flat = { tbl : (int, int * coq_N) Hashtbl.t; mutable gen : int array }
let flat_lookup (fl : flat) (blk : int) : coq_N -> coq_N =
  fun x -> let xi = int_of_n x in
    match Hashtbl.find_opt fl.tbl xi with
    | Some (g, v) when g = fl.gen.(xi / blk) -> v
    | _ -> n_of_int 255
let flatten (fl : flat) (blk : int) (d : Mgr.dev) (ops : Mgr.fop list) (extra : (int * int) list) : Mgr.dev =
  if noflat then d else begin
    (* phase 1: evaluate the layered function at every programmed address (reads see the table as it was before this
       operation); phase 2: erased blocks get a new generation (their cached bytes become stale = erased), then the new
       values are stored *)
    let fresh = Hashtbl.create 64 in
    let eval (a, len) = for x = a to a + len - 1 do
        if not (Hashtbl.mem fresh x) then Hashtbl.replace fresh x (d.Mgr.dmem (n_of_int x)) done in
    List.iter (function Mgr.FProg (a, len, _, _) -> eval (int_of_n a, int_of_n len) | Mgr.FErase _ -> ()) ops;
    List.iter eval extra;
    List.iter (function Mgr.FErase a -> let b = int_of_n a / blk in fl.gen.(b) <- fl.gen.(b) + 1 | _ -> ()) ops;
    Hashtbl.iter (fun x v -> Hashtbl.replace fl.tbl x (fl.gen.(x / blk), v)) fresh;
    { d with Mgr.dmem = flat_lookup fl blk }
  end

(* Bitmap flattening (performance only): the reconstruction state keeps `done` / `used` as functions nat -> bool built by
   layering one closure per update (MRecon.upd); they are replaced by extensionally equal array lookups over the index range
   the model consults (0 .. max n maxl), falling back to the layered function beyond it.  Off with FVM_NOFLAT=1. *)
let flat_bits (f : nat -> bool) (len : int) : nat -> bool =
  let arr = Array.make (len + 1) false in
  let rec fill i k = if i <= len then (arr.(i) <- f k; fill (i + 1) (S k)) in
  fill 0 O;
  fun k -> let rec go acc = function O -> acc | S j -> if acc >= len then -1 else go (acc + 1) j in
    let i = go 0 k in if i >= 0 then arr.(i) else f k
let flat_upd (u : Mgr.updater) : Mgr.updater =
  if noflat then u else
  let r = u.Mgr.u_rd in
  let len = max (int_of_nat r.MRecon.n) (max (int_of_nat r.MRecon.l) (int_of_nat u.Mgr.u_maxl)) in
  { u with Mgr.u_rd = { r with MRecon.coq_done = flat_bits r.MRecon.coq_done len; MRecon.used = flat_bits r.MRecon.used len } }

let run_case ~(checked : bool) ~(ffr : bool) (nslots : int) (slot : int) (blk : int) (ops : string list) : string =
  let m = { Mgr.m_slots = nat_of_int nslots; m_size = n_of_int slot } in
  let dev = ref (Mgr.blank_dev (n_of_int (nslots * slot)) (n_of_int blk)) in
  let fl = { tbl = Hashtbl.create 4096; gen = Array.make (nslots * slot / blk + 2) 0 } in
  let sess : Mgr.updater option ref = ref None in
  let dead = ref false in
  let last_bl : int option ref = ref None in
  let last_fb : int option ref = ref None in
  let crash : (int * (coq_N * coq_N) option) option ref = ref None in   (* absolute modifying-op index, torn *)
  let wops () = List.length (!dev).Mgr.dlog in
  let out = ref [] in
  List.iter (fun op ->
    match words op with
    | [] -> ()
    | cmd :: args ->
      dev := Mgr.reset_rh !dev;
      let before = !dev in
      let w0 = wops () in
      let passive = List.mem cmd ["crash"; "fail"; "reboot"; "raw"; "drop"; "hdrs"; "dump"; "dumpbl"] in
      let tok =
        if !dead && not passive then "X" else
        match cmd, args with
        | "start", [sz; cnt] ->
          sess := None;
          let (d, r) = Mgr.start_update m (n_of_int (int_of_string sz)) (n_of_hex (Printf.sprintf "%x" (int_of_string cnt))) !dev in
          dev := d;
          (match r with
           | Mgr.RPanic -> "panic" | Mgr.RErr e -> "err:" ^ merr_name e
           | Mgr.ROk u -> sess := Some (flat_upd u); "ok:" ^ counters u)
        | "seg", idx :: rest ->
          let payload = match rest with [h] -> h | _ -> "-" in
          let plen = if payload = "-" then 0 else String.length payload / 2 in
          (match !sess with
           | None -> "nosession"
           | Some u ->
             let ((d, u'), r) = Mgr.handle_segment checked ffr m u (n_of_hex (Printf.sprintf "%x" (int_of_string idx))) (n_of_le_hex payload) (n_of_int plen) !dev in
             dev := Mgr.clear_flags d;
             (match r with
              | Mgr.RPanic -> sess := None; "panic"
              | Mgr.RErr e -> sess := Some (flat_upd u'); "err:" ^ merr_name e ^ ":" ^ counters u'
              | Mgr.ROk Mgr.Consumed -> sess := Some (flat_upd u'); "C:" ^ counters u'
              | Mgr.ROk Mgr.FirmwareComplete -> sess := Some (flat_upd u'); "F:" ^ counters u'))
        | "done", [] ->
          (match !sess with
           | None -> "nosession"
           | Some u ->
             sess := None;
             let (d, r) = Mgr.check_and_mark_done m u !dev in
             dev := d;
             (match r with Mgr.RPanic -> "panic" | Mgr.RErr e -> "err:" ^ merr_name e | Mgr.ROk i -> Printf.sprintf "ok:%d" (int_of_nat i)))
        | "drop", [] -> sess := None; "-"
        | "recover", [] ->
          sess := None;
          let (d, r) = Mgr.try_recover m !dev in
          dev := d;
          (match r with
           | Mgr.RPanic -> "panic" | Mgr.RErr e -> "err:" ^ merr_name e
           | Mgr.ROk None -> "none"
           | Mgr.ROk (Some u) -> sess := Some (flat_upd u); "some:" ^ counters u)
        | "cancel", [] ->
          let (d, r) = Mgr.cancel_all_ext_pending m !dev in
          dev := d;
          (match r with Mgr.RPanic -> "panic" | Mgr.RErr e -> "err:" ^ merr_name e | Mgr.ROk () -> "ok")
        | "bl", [] ->
          let (d, r) = Mgr.bl_boot_status m !dev in
          dev := d;
          (match r with
           | Mgr.RPanic -> "panic" | Mgr.RErr e -> "err:" ^ merr_name e
           | Mgr.ROk Boot.Idle -> last_bl := None; "idle"
           | Mgr.ROk (Boot.IncompleteInternal i) -> last_bl := Some (int_of_nat i); Printf.sprintf "inc:%d" (int_of_nat i)
           | Mgr.ROk (Boot.FailedLoad i) -> last_bl := Some (int_of_nat i); Printf.sprintf "fail:%d" (int_of_nat i))
        | "fb", [] ->
          let (d, r) = Mgr.fallback_firmware m !dev in
          dev := d;
          (match r with
           | Mgr.RPanic -> "panic" | Mgr.RErr e -> "err:" ^ merr_name e
           | Mgr.ROk None -> last_fb := None; "none" | Mgr.ROk (Some i) -> last_fb := Some (int_of_nat i); Printf.sprintf "some:%d" (int_of_nat i))
        | ("validbl" | "dumpbl"), _ when !last_bl = None -> "nobl"
        | "validfb", _ when !last_fb = None -> "nofb"
        | ("valid" | "validbl" | "validfb"), irest ->
          let i = match irest with [i] -> int_of_string i | _ -> (match (if cmd = "validfb" then !last_fb else !last_bl) with Some i -> i | None -> 0) in
          if i >= nslots then "panic" else begin
            let (d, r) = Mgr.is_valid_firmware m (nat_of_int i) !dev in
            dev := d;
            (match r with Mgr.RPanic -> "panic" | Mgr.RErr e -> "err:" ^ merr_name e | Mgr.ROk () -> "ok") end
        | "ovalid", [i] ->
          let (d, r) = Mgr.orig_check_crc m (nat_of_int (int_of_string i)) !dev in
          dev := d;
          (match r with Mgr.RPanic -> "panic" | Mgr.ROk () -> "ok"
                      | Mgr.RErr (Mgr.MSpi _) -> "err:Spi" | Mgr.RErr e -> "err:" ^ merr_name e)
        | "markbl", [_] when !last_bl = None -> "nobl"
        | ("mark" | "markbl"), k :: irest ->
          let i = match irest with [i] -> int_of_string i | _ -> (match !last_bl with Some i -> i | None -> 0) in
          if i >= nslots then "panic" else begin
            let mk = match k with "abort" -> Mgr.KAbort | "complete" -> Mgr.KComplete | "int" -> Mgr.KInt | "ok" -> Mgr.KBootOk | _ -> Mgr.KBootBad in
            let (d, r) = Mgr.mark m (nat_of_int i) mk !dev in
            dev := d;
            (match r with Mgr.RPanic -> "panic" | Mgr.RErr e -> "err:" ^ merr_name e | Mgr.ROk () -> "ok") end
        | "crash", k :: rest ->
          let torn = match rest with [j; keep] -> Some (n_of_int (int_of_string j), n_of_hex keep) | _ -> None in
          crash := Some (wops () + int_of_string k, torn); "-"
        | "fail", [k] -> dev := Mgr.arm_fail !dev (n_of_int (int_of_string k)); "-"
        | "reboot", [] -> sess := None; dead := false; crash := None; dev := Mgr.with_mem !dev (!dev).Mgr.dmem; "-"
        | "raw", [a; h] ->
          let len = String.length h / 2 in
          let a = int_of_string ("0x" ^ a) in
          if a + len <= nslots * slot then dev := flatten fl blk (Mgr.poke !dev (n_of_int a) (n_of_int len) (n_of_le_hex h)) [] [(a, len)];
          "-"
        | ("dump" | "dumpbl"), dargs ->
          let (i, off, len) = match dargs with [i; off; len] -> (i, off, len) | [off; len] -> ((match !last_bl with Some i -> string_of_int i | None -> "0"), off, len) | _ -> ("0", "0", "0") in
          let a = int_of_string i * slot + int_of_string ("0x" ^ off) and len = int_of_string len in
          if a + len <= nslots * slot then (if len = 0 then "" else le_hex_of_n (Nor.read (!dev).Mgr.dmem (n_of_int a) (n_of_int len)) len) else "oob"
        | "hdrs", [] ->
          (* parsed headers, straight from memory (not a flash operation) *)
          let probe = Mgr.with_mem !dev (!dev).Mgr.dmem in
          String.concat "," (List.init nslots (fun i ->
            let v = Nor.read probe.Mgr.dmem (n_of_int (i * slot)) (n_of_int 28) in
            let bs = Mgr.bytes_of_val v (nat_of_int 28) in
            match Layout.parse bs with None -> "-" | Some _ -> hex_of_bytes bs))
        | _ -> "?" in
      (* power loss: did this operation reach the armed modifying-operation index? *)
      let newops = List.rev (firstn (wops () - w0) (!dev).Mgr.dlog) in
      let tok, shown =
        match !crash with
        | Some (at, torn) when (not !dead) && not passive && at < w0 + List.length newops ->
          let k = at - w0 in
          let mem' = Mgr.crash_mem (n_of_int blk) before.Mgr.dmem newops (nat_of_int k) torn in
          (* the device is dead: keep the log prefix, the memory of the crash, nothing armed *)
          let d0 = Mgr.with_mem before mem' in
          let keep = firstn k newops in
          (* applied: the first k operations; the interrupted one only if it is a (torn) program *)
          let torn_range = match List.nth_opt newops k with Some (Mgr.FProg (a, len, _, _)) -> [(int_of_n a, int_of_n len)] | _ -> [] in
          dev := flatten fl blk { d0 with Mgr.dlog = List.rev_append keep before.Mgr.dlog } keep torn_range;
          dead := true; crash := None; sess := None;
          "X", keep
        | _ -> dev := flatten fl blk !dev newops []; tok, newops in
      let lg = fmt_ops blk shown in
      let nops = int_of_n (!dev).Mgr.dops - int_of_n before.Mgr.dops in
      let tok = if lg = "" then tok else tok ^ "[" ^ lg ^ "]" in
      out := (if nops <> 0 && not passive && not !dead then tok ^ "#" ^ string_of_int nops ^ "/" ^ hex_of_n (!dev).Mgr.drh else tok) :: !out) ops;
  String.concat " ; " (List.rev !out)

let run args =
  let checked = not (List.mem "release" args) and ffr = List.mem "ffr" args in
  checked_build := checked;
  iter_lines (fun line ->
    match String.index_opt line '|' with
    | None -> print_endline "?"
    | Some p ->
      let hd = String.sub line 0 p and body = String.sub line (p + 1) (String.length line - p - 1) in
      (match List.map int_of_string (words hd) with
       | [ns; slot; blk] when ns >= 4 && ns <= 6 ->
         print_endline (run_case ~checked ~ffr ns slot blk (List.map String.trim (String.split_on_char ';' body)))
       | _ -> print_endline "?slots"))


(* gsession: the delivery part of a session on blank flash, run through BOTH the byte-level model Mgr.v and the
   storage-interface instance Updater.run_session (GRecon.v over Sim.v's flash storages, the object of the byte-level
   theorems); prints AGREE when outcomes and every flash program agree.   case: slot n sz blk|idx:hex,... *)
let grun () =
  iter_lines (fun line ->
    match String.split_on_char '|' line with
    | [hd; frs] ->
      (match List.map int_of_string (words hd) with
       | [slot; n; sz; blk] ->
         let frs = List.filter_map (fun t -> match String.split_on_char ':' (String.trim t) with
             | [a; b] -> Some (int_of_string a, b) | _ -> None) (String.split_on_char ',' frs) in
         let ((rs, wl), _cap) = Updater.run_session (n_of_int slot) (n_of_int n) (n_of_int sz) (List.map (fun (i, h) -> (nat_of_int i, n_of_le_hex h)) frs) in
         let m = { Mgr.m_slots = nat_of_int 4; m_size = n_of_int slot } in
         let d0 = Mgr.blank_dev (n_of_int (4 * slot)) (n_of_int blk) in
         (match Mgr.start_update m (n_of_int sz) (n_of_int n) d0 with
          | (d1, Mgr.ROk u) ->
            let w0 = List.length d1.Mgr.dlog in
            let rec feed d u frs acc = match frs with
              | [] -> (d, List.rev acc)
              | (i, h) :: tl ->
                let ((d', u'), r) = Mgr.handle_segment true false m u (n_of_int i) (n_of_le_hex h) (n_of_int sz) d in
                (match r with
                 | Mgr.ROk Mgr.FirmwareComplete -> (d', List.rev ("D" :: acc))
                 | Mgr.ROk Mgr.Consumed -> feed d' u' tl ((if u'.Mgr.u_rd.MRecon.l = O && int_of_nat u.Mgr.u_rd.MRecon.l = 0 && i > n then "T" else "N") :: acc)
                 | _ -> (d', List.rev ("E" :: acc))) in
            let (d2, mres) = feed d1 u frs [] in
            let mw = List.rev (firstn (List.length d2.Mgr.dlog - w0) d2.Mgr.dlog) in
            let gres = List.map (function GRecon.NeedMore -> "N" | GRecon.TooManyMissing -> "T" | GRecon.Done _ -> "D") rs in
            let same_w = List.length mw = List.length wl && List.for_all2 (fun a ((ga, gl), gv) -> match a with
                | Mgr.FProg (a, l, v, _) -> a = ga && l = gl && v = gv | _ -> false) mw wl in
            if mres = gres && same_w then Printf.printf "AGREE %d %d\n" (List.length gres) (List.length wl)
            else Printf.printf "MODEL-INTERNAL-MISMATCH results %s vs %s writes %d vs %d\n" (String.concat "" mres) (String.concat "" gres) (List.length mw) (List.length wl)
          | _ -> print_endline "MODEL-INTERNAL-MISMATCH start failed")
       | _ -> print_endline "?")
    | _ -> print_endline "?")
