module List = Stdlib.List
module String = Stdlib.String
module Buffer = Stdlib.Buffer
module Char = Stdlib.Char
let () =
  match Array.to_list Sys.argv with
  | _ :: "layout" :: _ -> Cmd_layout.run ()
  | _ :: "recon" :: _ -> Cmd_recon.run ()
  | _ :: "session" :: rest -> Cmd_session.run rest
  | _ :: "gsession" :: _ -> Cmd_session.grun ()
  | _ :: "lfdbt" :: rest -> Cmd_lfdbt.run rest
  | _ :: "adapters" :: _ -> Cmd_adapters.run ()
  | _ :: "orig" :: rest -> Cmd_v1.run ~orig:true rest
  | _ :: "naive" :: rest -> Cmd_v1.run ~orig:false rest
  | _ -> prerr_endline "usage: fvm <layout|...>"; exit 2
