#!/usr/bin/env python3
"""usage: tools/eval_seeds.py [name ...]
Applies each seeded change under /verif/seeded/ to /repo, runs the quick check of the property it targets (meta.json
"property", plus the checks listed in "also"), records the outcome in seeded/<name>/result.json and undoes the change.
Never run concurrently with other checks: /repo is modified while it runs."""
import json, os, subprocess, sys, re
ROOT = "/verif"
# --shadow: run in the isolated copy made by tools/shadow.sh (leaves /repo alone)
SHADOW = "--shadow" in sys.argv
args = [a for a in sys.argv[1:] if a != "--shadow"]
SH = os.environ.get("FVSHADOW", "/tmp/fvshadow")
RUN, REPO = (SH + "/verif", SH + "/repo") if SHADOW else (ROOT, "/repo")
os.environ["FUOTA_REPO"] = REPO
names = args or sorted(os.listdir(ROOT + "/seeded"))
for n in names:
    d = "%s/seeded/%s" % (ROOT, n)
    if not os.path.isfile(d + "/patch.diff"):
        continue
    meta = json.load(open(d + "/meta.json"))
    props = [meta["property"]] + meta.get("also", [])
    if subprocess.run(["git", "-C", REPO, "status", "--porcelain", "--untracked-files=no"], capture_output=True, text=True).stdout.strip():
        sys.exit(REPO + " is not clean")
    if subprocess.run(["git", "-C", REPO, "apply", d + "/patch.diff"]).returncode != 0:
        print(n, "patch does not apply"); continue
    res = {}
    try:
        for p in props:
            r = subprocess.run([RUN + "/fvcheck", p], capture_output=True, text=True)
            vio = [l for l in r.stdout.splitlines() if l.startswith("VIOLATION")]
            rec = {"exit": r.returncode, "violation_line": vio[0] if vio else None,
                   "concrete_input": bool(vio) and "no-failing-input-found" not in vio[0]}
            if vio:
                m = re.search(r"replay=(\S+)", vio[0])
                try:
                    rp = json.load(open(m.group(1)))
                    f = rp.get("failure") or {}
                    rec["kind"] = rp.get("kind"); rec["what"] = (f.get("what") or json.dumps(rp.get("broken", ""))[:300])
                    rec["case"] = (f.get("case") or "")[:400]
                except Exception as e:
                    rec["replay_error"] = str(e)
            res[p] = rec
            print(n, p, "exit", r.returncode, "concrete" if rec["concrete_input"] else ("broken-only" if vio else "MISSED"), flush=True)
    finally:
        subprocess.run(["git", "-C", REPO, "checkout", "--", "."])
    json.dump({"seed": n, "property": meta["property"], "checks": res}, open(d + "/result.json", "w"), indent=1)
