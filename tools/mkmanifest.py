#!/usr/bin/env python3
"""Regenerates /verif/MANIFEST.json from the table below (one entry per claimed property)."""
import json, os
V = os.path.dirname(os.path.dirname(os.path.abspath(__file__)))
ids = [json.loads(l)["id"] for l in open(os.path.join(V, "properties.jsonl"))]

NOTE_COMMON = ("Trusted: Coq 8.16.1 kernel + VM (no native_compute), no axioms (Print Assumptions of every pinned theorem must be closed); the hand-written Gallina models; "
               "their tie to /repo = gen/Consts.v regenerated from the compiled crates + differential correspondence streams (bounded by generator quality); "
               "extraction (ExtrOcamlBasic only) + OCaml driver; the Rust harness (SimNor device model) ; the Python driver and oracles.")

CLAIMS = {
 "C01": ("proof + correspondence: on the executable byte-level model itself (Mgr.v) start_update Ok + every handle_segment Ok + one FirmwareComplete => status bytes 0x33 and data region = image, for every geometry, device contents, build mode, image and consistent delivery (c01_executable_model_update_sound: Mgr.flash_sto refines the storage-interface instance, MRecon = GRecon on Ok calls, flash_reconstruction_sound, recon_sound) and the CRC gate of check_and_mark_done are theorems; the byte-level model Mgr.v is compared operation by operation (results, counters, every flash program) with the real Updater on generated sessions incl. ring histories, in the matrix and matrix+force-full-r builds, also with clean reboots in between, and with the storage-interface model; oracle: final flash image = transmitted image, validation, header, counters.",
         "6 C01", "Coq proof (refinement flash storages -> abstract reconstructor) + differential model/implementation session stream + image oracle"),
 "C02": ("proof: recon_sound for every n, block size, capacity, matrix obeying the contract, original data and consistent block sequence (induction over the block list), and the executable model run by the stream is Recon.run (c02_executable_model_is_recon); correspondence of the reconstructor model with parity-reconstruct on generated sequences incl. every storage call; oracle on data-store arguments / final store.",
         "6 C02", "Coq proof by invariant over the block list + differential recon stream"),
 "C03": ("proof: done_iff_full_rank (Done exactly when the accepted rows span GF(2)^n) for every contract-respecting matrix and sequence; correspondence on the recon stream; oracle: independent GF(2) rank after every call, refusal predicate, silence after Done / on refusal.",
         "6 C03", "Coq proof (span algebra with ghost witnesses) + differential recon stream + rank oracle"),
 "C05": ("proof: for every N >= 4 and every history (unbounded) the two slots chosen by a start are never the newest confirmed image's (exact ring invariant); checked on the real SlotManager by closure of the header-level lifecycle (every reachable arrangement x every operation incl. crash prefixes of start) and on random histories with real data.",
         "6 C05", "Coq proof (ring invariant over histories) + exhaustive closure exploration on the implementation"),
 "C09": ("proof: trace_wf - the storage-call trace of every run passes the write-once monitor; correspondence of the full call log; monitor oracle over the implementation's log incl. buffer lengths.",
         "6 C09", "Coq proof (trace monitor invariant) + differential recon stream"),
 "C11": ("proof over constants regenerated from the compiled crates: parse iff legal, both round trips, pinned deployed values for both crates, clear-only transitions, tear safety for every intermediate pattern (symbolic), classification table, mark effect; correspondence of both crates' codecs and status marks with the model; the private classification of flash-algo-new is observed through bl / fallback / recovery remediation on every legal header beside a resumable pair; oracle: reference codec written from the property text.",
         "6 C11", "Coq proof over regenerated constants + differential layout stream"),
 "C12": ("proof: along every history (every N >= 4) both queries equal what the abstract lifecycle says; checked in every reachable state of the closure on the real SlotManager against an independent lifecycle tracker.",
         "6 C12", "Coq proof (ghost lifecycle refinement over histories) + closure exploration on the implementation"),
 "C13": ("proof: exclusive / none-clears / cancel-clears / protected / idempotent (static) and sound / complete over histories for every N >= 4; checked from every reachable state of the closure on the real SlotManager (recover, recover twice, recover+complete, cancel and its crash prefixes).",
         "6 C13", "Coq proof (invariants over histories) + closure exploration on the implementation"),
 "C04": ("proof + fault enumeration: tear safety of every status word (all intermediate patterns), the CRC gate before the Complete mark, read-only validation, header-first slot erase and total allocation are theorems, and for every crash point / torn outcome of the final check-and-mark the firmware data region is untouched and CRC-valid whenever anything was programmed (c04_final_mark_crash_safe, executable model); power loss at every modifying flash operation of rich histories (start, fragments, final mark, recovery remediation, cancel, status marks) incl. torn programs is executed on the real crate and on the byte-level model; oracle: no panic after reboot, every Complete firmware slot validates and holds the image sent for its sequence number, boot status never designates an invalid slot.",
         "6 C04", "Coq proof of the ingredients + exhaustive crash/torn enumeration per history, differential against the model"),
 "C06": ("proof + fault enumeration: recovery reads back the durable bookkeeping (recover_roundtrip) and data writes are crash-compatible (compatibility lemmas) are theorems; power loss at every operation boundary of start / every fragment / final mark with both continuations is executed on the real crate and the model; the two windows where the on-flash state is not a sufficient checkpoint are recorded known findings classified from the reference operation log.",
         "6 C06", "Coq proof (checkpoint lemmas) + exhaustive crash-point enumeration per scenario; two known findings"),
 "C07": ("proof + twin runs: what recovery reads from flash is the live bookkeeping at every fragment boundary, and every call preserves the pairing between the flash-backed and the abstract session, and on the executable model the two loaders of try_recover_inner return exactly the live done / used bits after any list of Ok calls (theorems); every reboot position of generated scripts (single, several, every position; debug and release) is compared with the uninterrupted run on the real crate and with the model.",
         "6 C07", "Coq proof (refinement / round trip) + twin-run differential"),
 "C08": ("proof: the flash-backed parity / matrix storages can only program inside [parity slot + 0x400, slot end) for any arguments, data blocks and status bytes land where the layout says for accepted geometries, rows / blocks are disjoint (arithmetic for every index and size), NOR read-back, and at run level on the executable model every handle_segment call (any outcome, any fault), every delivery and every successful start_update touches only the session's two slots (c08_handle_segment_confined, c08_delivery_confined, c08_start_update_confined); every erase / program of every generated scenario (ring positions incl. the last slot, losses beyond capacity, every other API call via the ring closure) is monitored and compared with the model.",
         "6 C08", "Coq proof (address arithmetic, confinement) + operation-log monitor over differential streams"),
 "C10": ("proof: the three implementation-shaped generators equal the TS004 reference for every M and 1 <= N <= 16383 in both feature modes, index shift of the updater matrix, rows in range / non-empty / exact weight with force-full-r, interop vectors and pinned rows by computation; termination is proved for every M that is not a power of two and by computation for the powers of two up to 128 with N <= 1023 (exercised only for M in 256..16384 and for the force-full-r loop); lfdbt stream over exhaustive small and sampled large (M, N) in both builds against the model and an independent reference.",
         "6 C10", "Coq proof (generator = spec) + differential lfdbt stream; termination clause proved in part"),
 "C14": ("proof: the prefix-skip loop digests exactly bytes [68, count*size) for every size and count, CRC-32/CKSUM check value, single-bit detection for every length and position, validation gate iff, read-only validation, CRC gate of the final mark, flash-level routine of the executable model = list-level routine; slots prepared with every fragment size and boundary counts, single-bit corruptions inside / outside the covered range, both crates' routines, against the model and an independent CRC.",
         "6 C14", "Coq proof (loop invariant, CRC algebra) + differential session-crc stream"),
 "C15": ("proof: acceptance iff representable-and-fits, rejection before any flash operation, the binary search returns the largest fitting l < 2048 which is at least the documented capacity and is what the session enforces, refusal exact and harmless; u32 x u32 boundary geometries, every fragment size at several slot sizes incl. 256 KiB, behaviour at exactly L and L+1 losses, against the model and the property's own predicate.",
         "6 C15", "Coq proof (search postcondition, arithmetic) + differential geometry / capacity / loss streams"),
 "C16": ("proof for the data adapter (shared words): its three word programs equal programming the block bytes in place for every write size, block length >= write size, range start and index (get-after-store, frame, contiguity), and the executable model equals the proved one; matrix adapter: rows back to back, disjoint, num_rows fits the range, set_row confined to its row; parity adapter: store confined to its padded slot (read-back values of these two by correspondence and oracle); adapters stream over every write size, read sizes dividing it, block lengths, store orders, range starts, bit-array widths.",
         "6 C16", "Coq proof (data adapter in full, layout / non-interference of the parity and matrix adapters) + differential adapters stream with contract oracle"),
 "C17": ("proof: index 0 rejected before any effect in both arithmetic modes, allocation total on any ring, oversize parity header not resumed, storage writes confined for any arguments; index stream (0, 1, n, n+1, 2^14, 2^16, 2^32-1, the u32 seed-overflow index, random) at sampled positions in debug / release / force-full-r builds, the single-erasure back-end with indices beyond count + capacity, and corrupt-flash stream (structured and random headers, adversarial pairs, garbage tables, slots up to 1 MiB) against the model, predicted vs observed panics; one recorded known finding (seed overflow index).",
         "6 C17", "Coq proof (totality facts) + differential malformed-input and corrupt-flash streams"),
 "C18": ("proof + fault enumeration: a failed call leaves done/used unchanged except inside the back substitution (theorem, any storage instance), and re-delivery after such a failed call equals the fault-free call in outcome, bookkeeping and stores on the instrumented storages (c18_retry_is_fault_free, with the stage invariant kept by every call); one transient failure at every storage-operation index of generated runs with re-delivery, compared with the fault-free run and with the fault-aware model; the finish window is a recorded known finding.",
         "6 C18", "Coq proof (bookkeeping of failed calls) + exhaustive single-fault injection per run"),
}

CLAIMS["C19"] = ("proof: the V1 repair loop (first coded row with exactly one missing covered fragment, repeated) recovers exactly the least fixed point of single-missing peeling, independent of scan order (fragment-set level); byte-level models of both V1 implementations are compared with the crates (results, every program / erase) on generated deliveries in three builds, with a peeling-decoder oracle, repaired = original, final image, duplicates are no-ops, both implementations complete at the same fragment, and power loss at every operation boundary + recovery for the flash-algo-new variant.",
         "6 C19", "Coq proof (peeling fixed point) + differential naive / orig streams with peeling oracle and crash enumeration")
CLAIMS["C20"] = ("proof: for every slot count and every consistent ring (any rotation, fill level, starting number incl. the 2^32-1 wrap) find_oldest_slot returns the first blank position after the newest slot (oldest image on a full ring) and the successor sequence number, next_seq never produces the reserved value, the two allocations of start take the two positions after the newest slot with the next two numbers and keep the ring consistent; every consistent ring state for 3..6 slots is created on SimNor and start / app_boot_status (after a start and on its own, with in-progress headers at chosen positions) are executed on the real crate and the model; fragment writes for index / size / slot classes are checked against slot bounds.",
         "6 C20", "Coq proof (ring arithmetic) + exhaustive ring-state enumeration for 3..6 slots, differential orig stream")

checks = []
for pid, (text, ref, tech) in sorted(CLAIMS.items()):
    checks.append({
        "property_id": pid,
        "quick_cmd": "./fvcheck %s --tier quick" % pid,
        "thorough_cmd": "./fvcheck %s --tier thorough" % pid,
        "evidence_file": "/verif/evidence/%s.json" % pid,
        "replay_cmd_template": "./fvcheck %s --replay {path}" % pid,
        "engine": "fvcheck",
        "level_claimed": {"category": "proof", "text": text, "design_ref": "DESIGN.md section " + ref},
        "level_note": NOTE_COMMON,
        "technique": tech,
    })

na = [{"property_id": i, "reason": "check still under construction in this session (model and stream exist in part; see DESIGN.md section 9); not claimed yet"} for i in ids if i not in CLAIMS]

m = {
 "version": 1,
 "setup_cmd": "./setup.sh",
 "hooks": {"guard": "fuota_verif", "enable": "RUSTFLAGS=\"--cfg fuota_verif\" is passed to every harness build; no hook commit exists: everything is observed through public API and the SpiFlash / storage trait boundary",
           "baseline_off_cmd": "cd /repo && INSTA_UPDATE=no cargo test --workspace --no-fail-fast --offline", "source_commits": [], "add_only": True},
 "engines": [{"name": "fvcheck", "path": "/verif/fvcheck", "serves_properties": sorted(CLAIMS), "kind_free_text": "Coq 8.16 proofs (coq/) + extracted OCaml model driver (fvm/) + Rust differential harness (harness/) + Python orchestration and oracles (fvlib/)"}],
 "checks": checks,
 "notes": "Machine-checked proof in Coq about executable Gallina models, tied to /repo by regenerated constants and differential correspondence; see DESIGN.md. KNOWN_FINDINGS.jsonl lists recorded findings and fixed defects.",
 "not_applicable": na,
}
json.dump(m, open(os.path.join(V, "MANIFEST.json"), "w"), indent=1)
print("claimed:", sorted(CLAIMS), "not claimed:", [x["property_id"] for x in na])
