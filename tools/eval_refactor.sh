#!/bin/bash
# usage: tools/eval_refactor.sh <patch.diff> [shadow dir]  - applies a behaviour-preserving change to the shadow copy of /repo
# (tools/shadow.sh) and runs all 20 quick checks there; prints every check that does not end in "ok" (NOTE lines are shown)
P=$1; S=${2:-/tmp/fvshadow2}
git -C $S/repo checkout -q -- . ; git -C $S/repo apply $P || exit 2
cd $S/verif
for p in C01 C02 C03 C04 C05 C06 C07 C08 C09 C10 C11 C12 C13 C14 C15 C16 C17 C18 C19 C20; do
  out=$(FUOTA_REPO=$S/repo ./fvcheck $p 2>&1 | grep -v "^KNOWN")
  last=$(echo "$out" | tail -1)
  notes=$(echo "$out" | grep -c "^NOTE")
  case "$last" in *" ok "*) echo "$p ok (notes: $notes)";; *) echo "$p ALARM: $(echo "$out" | grep VIOLATION | head -1 | cut -c1-200)";; esac
done
git -C $S/repo checkout -q -- .
