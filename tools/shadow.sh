#!/bin/bash
# usage: tools/shadow.sh  - (re)creates an isolated copy of /repo and /verif under /tmp/fvshadow so that seeded changes can be
# evaluated without touching /repo (e.g. while thorough checks run on the real tree). Nothing registered in MANIFEST.json uses it.
set -e
S=${FVSHADOW:-/tmp/fvshadow}
mkdir -p $S
if [ ! -d $S/repo/.git ]; then git clone -q /repo $S/repo; fi
git -C $S/repo fetch -q origin 2>/dev/null || true
git -C $S/repo checkout -q --detach $(git -C /repo rev-parse HEAD) 2>/dev/null || { rm -rf $S/repo; git clone -q /repo $S/repo; }
git -C $S/repo reset -q --hard; git -C $S/repo clean -fdq
rsync -a --delete --exclude 'replays/' --exclude '.git/' /verif/ $S/verif/
sed -i "s#\"/repo/#\"$S/repo/#g" $S/verif/harness/Cargo.toml
echo "shadow ready: FUOTA_REPO=$S/repo $S/verif/fvcheck Cxx"
