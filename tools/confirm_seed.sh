#!/bin/bash
# usage: tools/confirm_seed.sh <worktree> <outdir> <name>
# Confirms a seeded change in its scratch worktree: the change compiles, the baseline tests behave as on the unchanged tree,
# the demonstration fails with the change and passes without it; then stores it under /verif/seeded/<name>/.
set -u
WT=$1; OUT=$2; NAME=$3
export CARGO_TARGET_DIR=$WT/target INSTA_UPDATE=no CARGO_NET_OFFLINE=true
cd $WT || exit 2
git reset -q --hard HEAD; git clean -fdq -e target
git apply $OUT/patch.diff || { echo "patch does not apply"; exit 1; }
cargo build --workspace --offline -q 2>&1 | tail -3
cargo test --workspace --no-fail-fast --offline 2>&1 | grep -E "^test .* (ok|FAILED)$" | sort > /tmp/seed_with.txt
git apply $OUT/demo.patch || { echo "demo does not apply"; exit 1; }
DEMO=$(cat $OUT/demo_cmd.txt | sed "s#cd [^ ]* && ##")
echo "demo with change:"; ( eval "$DEMO" 2>&1 | grep -E "^test result|FAILED|panicked" | head -5 ); 
git apply -R $OUT/patch.diff
echo "demo without change:"; ( eval "$DEMO" 2>&1 | grep -E "^test result|FAILED|panicked" | head -5 )
git reset -q --hard HEAD; git clean -fdq -e target
cargo test --workspace --no-fail-fast --offline 2>&1 | grep -E "^test .* (ok|FAILED)$" | sort > /tmp/seed_base.txt
echo "baseline tests: $(grep -c ' ok$' /tmp/seed_base.txt) ok / $(grep -c FAILED /tmp/seed_base.txt) failed; with change: $(grep -c ' ok$' /tmp/seed_with.txt) ok / $(grep -c FAILED /tmp/seed_with.txt) failed; identical: $(cmp -s /tmp/seed_base.txt /tmp/seed_with.txt && echo yes || echo NO)"
mkdir -p /verif/seeded/$NAME && cp $OUT/patch.diff $OUT/demo.patch $OUT/demo_cmd.txt $OUT/meta.json /verif/seeded/$NAME/
