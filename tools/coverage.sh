#!/bin/bash
# usage: tools/coverage.sh [Cxx ...]   (diagnostic, not registered in MANIFEST.json)
# Runs the quick checks in an isolated copy (tools/shadow.sh) with the harness built for source-based coverage (nightly toolchain,
# llvm-tools) and prints, per source file of the three library crates, the lines that no check's inputs reach.  Used to find
# regions of the input space the generators leave out.
set -e
S=${FVSHADOW:-/tmp/fvshadow}
/verif/tools/shadow.sh >/dev/null
COV=$S/cov; rm -rf $COV; mkdir -p $COV
BIN=$(dirname $(rustup +nightly which rustc))/../lib/rustlib/x86_64-unknown-linux-gnu/bin
props=${@:-C01 C02 C03 C04 C05 C06 C07 C08 C09 C10 C11 C12 C13 C14 C15 C16 C17 C18 C19 C20}
cd $S/verif
for p in $props; do FV_COVERAGE=$COV FUOTA_REPO=$S/repo ./fvcheck $p 2>&1 | tail -1 | cut -c1-120; done
for v in matrix matrix-rel matrix-ffr naive naive-ffr; do
  b=$S/verif/.cache/cov-$v/debug/fvh; [ -f $b ] || b=$S/verif/.cache/cov-$v/release/fvh; [ -f $b ] || continue
  ls $COV/*.profraw >/dev/null 2>&1 || continue
  objs="$objs -object $b"
done
$BIN/llvm-profdata merge -sparse $COV/*.profraw -o $COV/all.profdata
first=$(echo $objs | cut -d' ' -f2)
$BIN/llvm-cov report $first $objs -instr-profile=$COV/all.profdata --ignore-filename-regex='(registry|rustc|harness/src|testutils)' 2>/dev/null | tail -40
$BIN/llvm-cov show $first $objs -instr-profile=$COV/all.profdata --ignore-filename-regex='(registry|rustc|harness/src|testutils)' --show-line-counts-or-regions 2>/dev/null > $COV/show.txt
echo "annotated sources: $COV/show.txt"
