#!/usr/bin/env python3
"""writes seeded/README.md from seeded/*/meta.json and result.json"""
import json, os
R = "/verif/seeded"
rows = []
for n in sorted(os.listdir(R)):
    d = R + "/" + n
    if not os.path.isfile(d + "/meta.json"):
        continue
    m = json.load(open(d + "/meta.json"))
    r = json.load(open(d + "/result.json")) if os.path.isfile(d + "/result.json") else {"checks": {}}
    res = []
    for p, c in r["checks"].items():
        if c["violation_line"] is None: v = "MISSED"
        elif c["concrete_input"]: v = "caught, concrete input"
        else: v = "caught (proof / correspondence broken, no failing input found)"
        res.append("%s: %s" % (p, v))
    what = ""
    own = r["checks"].get(m["property"], {})
    if own.get("what"): what = own["what"][:220].replace("\n", " ").replace("|", "/")
    rows.append((n, m["property"], (m.get("summary") or "")[:260].replace("\n", " ").replace("|", "/"), "; ".join(res), what))
out = ["# Seeded changes", "",
       "Each directory holds `patch.diff` (the change, applies to /repo with `git -C /repo apply`), `demo.patch` + `demo_cmd.txt` (the author's",
       "demonstration: passes on the unchanged tree, fails with the change), `meta.json` (author's description) and `result.json`",
       "(what the quick checks printed with the change applied; written by `tools/eval_seeds.py`).",
       "`orig-Cxx` = reverse of the corresponding `fix:` commit (the defect of the pinned tree). All others were written by",
       "independent sub-agents from the property text alone and confirmed with `tools/confirm_seed.sh` (compiles, the 51+ baseline",
       "tests behave identically, demonstration fails with / passes without the change).", "",
       "| seed | property | change | checks | first reported failure |", "|---|---|---|---|---|"]
for r in rows:
    out.append("| %s | %s | %s | %s | %s |" % r)
open(R + "/README.md", "w").write("\n".join(out) + "\n")
print(len(rows), "seeds")
