#!/bin/bash
# usage: tools/run_seed.sh <seed-name> <PROP> [more props]: applies the seeded change to /repo, runs the quick checks, undoes it
N=$1; shift
git -C /repo apply /verif/seeded/$N/patch.diff || exit 2
for p in "$@"; do
  /verif/fvcheck $p 2>&1 | grep -v "^KNOWN" | tail -2 | tr '\n' ' '; echo
done
git -C /repo checkout -- .
