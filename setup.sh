#!/bin/sh
# Builds the framework from files on disk only (offline): harness variants, generated constants,
# the whole Coq development (full .vo build) and the extracted model driver.
set -e
cd "$(dirname "$0")"
export CARGO_NET_OFFLINE=true
python3 - <<'PY'
import sys, os
sys.path.insert(0, os.getcwd())
from fvlib import core
from concurrent.futures import ThreadPoolExecutor
with ThreadPoolExecutor(4) as ex:
    bins = list(ex.map(core.build_harness, list(core.VARIANTS)))
core.gen_consts(bins[0])
ok, log = core.coq_make([])          # default target: everything in _CoqProject
if not ok:
    print(log[-6000:]); sys.exit(1)
core.build_fvm()
print("setup ok")
PY
